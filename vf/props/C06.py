"""C06 — consistent observations reproduce the network they were derived from.
Relational monitor on the real gama-local binary: netgen draws true coordinates, derives error-free
observations (17 significant digits) and writes variants of the same survey (approximate coordinates exact /
perturbed / omitted where the documented strategy resolves them; with/without instrument and target
heights); the oracle is the generating coordinates."""
import json
import math
import os
import numpy as np

from .. import runner, netgen, xmlout, netlevel
from ..runner import Check, tier_n

TOL_M = 1e-6          # adjusted = true within a micrometre
TOL_RES = 1e-3        # mm / cc


def resolvable_omissions(rng, net, kmax):
    """Choose points whose approximate coordinates are omitted, restricted to what the manual's strategy
    resolves by construction: each omitted point is reached from a station with known (or already resolved)
    coordinates by an oriented direction + a horizontal distance (polar step), the station's orientation
    being given by a direction to another known point; heights by a levelled height difference or by
    slope distance + zenith angle from a point of known height."""
    P = net.points
    known_xy = {i for i, q in P.items() if q.xy != "none"}
    known_z = {i for i, q in P.items() if q.z != "none"}
    # in a network with a datum defect the constrained points define the datum through their approximate
    # coordinates; coordinates gama computes itself need not be exact, so constrained points are never omitted
    cand = [i for i, q in P.items() if (q.xy == "free" or q.z == "free") and "constrained" not in (q.xy, q.z)]
    cand = [str(c) for c in rng.permutation(cand)]
    omitted = []
    min_known = 2 if net.dim >= 2 else 1
    for c in cand:
        if len(omitted) >= kmax:
            break
        kxy = known_xy - {c}
        kz = known_z - {c}
        if net.dim >= 2 and len(kxy - set(omitted)) < min_known:
            continue
        if net.dim != 2 and len(kz - set(omitted)) < 1:
            continue
        trial = omitted + [c]
        if _resolves(net, set(trial)):
            omitted = trial
    return omitted


def _resolves(net, omitted):
    P = net.points
    have_xy = {i for i, q in P.items() if q.xy != "none" and i not in omitted}
    have_z = {i for i, q in P.items() if q.z != "none" and i not in omitted}
    need_xy = {i for i in omitted if P[i].xy != "none"}
    need_z = {i for i in omitted if P[i].z != "none"}
    progress = True
    while progress and (need_xy or need_z):
        progress = False
        for cl in net.clusters:
            if cl.kind == "obs" and cl.station in have_xy:
                dirs = {o.to for o in cl.obs if o.kind == "direction"}
                if not (dirs & have_xy):
                    continue
                dists = {o.to for o in cl.obs if o.kind == "distance"}
                for t in list(need_xy):
                    if t in dirs and t in dists:
                        need_xy.discard(t); have_xy.add(t); progress = True
            if cl.kind == "hdiff":
                for o in cl.obs:
                    if o.frm in have_z and o.to in need_z:
                        need_z.discard(o.to); have_z.add(o.to); progress = True
                    elif o.to in have_z and o.frm in need_z:
                        need_z.discard(o.frm); have_z.add(o.frm); progress = True
    return not need_xy and not need_z


def variants(rng, base):
    """yield (name, net) variants of one consistent survey"""
    yield "exact", base
    v = base.clone()
    amp = 0.2
    # an angle with one short and one long arm turns a 0.2 m shift of the near target into a misclosure that the
    # documented rule (angular misclosure x arm length) rates above 1 m: tol-abs is raised so that nothing is a
    # gross error by the documented rule
    v.params["tol_abs"] = 1e5
    # constrained points define the datum of a free network through their approximate coordinates: perturbing
    # them legitimately moves the whole solution, so only the non-constrained unknown points are perturbed
    for q in v.points.values():
        if q.xy == "free":
            q.dE, q.dN = [float(x) for x in rng.uniform(-amp, amp, 2)]
        if q.z == "free":
            q.dH = float(rng.uniform(-amp, amp))
    yield "perturbed", v
    if any(o.from_dh is not None for _, o in base.all_obs()):
        # large perturbation (metres) with instrument/target heights: several iterations in which the reductions
        # to the marks change; tol-abs raised so that nothing is a gross error
        v = base.clone()
        v.params["tol_abs"] = 1e5
        for q in v.points.values():
            if q.xy == "free":
                q.dE, q.dN = [float(x) for x in rng.uniform(-3, 3, 2)]
            if q.z == "free":
                q.dH = float(rng.uniform(-3, 3))
        yield "perturbed-large", v
    v = base.clone()
    om = resolvable_omissions(rng, v, kmax=int(rng.integers(1, 4)))
    if om:
        for i in om:
            v.points[i].give_xy = False
            v.points[i].give_z = False
        v.kind = base.kind
        yield "omitted%d" % len(om), v


def strategy_nets(rng):
    """Small networks in which one unknown point (no approximate coordinates given) is determined by exactly one
    of the documented combinations of determining elements (manual, 'Approximate coordinates': outer bearing,
    distance, inner angle; similarity transformation for chains; heights from height differences / zenith
    angle + slope distance; vectors), plus a little redundancy.  yield (name, net)."""
    def base(dim=2):
        net = netgen.Net(); net.dim = dim
        R = float(rng.uniform(200, 2000))
        ang = sorted(rng.uniform(0, 2 * math.pi, 4))
        for k, a in enumerate(ang):
            r = R * float(rng.uniform(0.7, 1.3))
            net.points["F%d" % k] = netgen.Pt("F%d" % k, r * math.cos(a), r * math.sin(a),
                                              float(rng.uniform(-20, 20)) if dim == 3 else 0.0, "fixed",
                                              "fixed" if dim == 3 else "none")
        net.points["P"] = netgen.Pt("P", float(rng.uniform(-0.3, 0.3)) * R, float(rng.uniform(-0.3, 0.3)) * R,
                                    float(rng.uniform(-20, 20)) if dim == 3 else 0.0, "free", "free" if dim == 3 else "none",
                                    give_xy=False, give_z=False)
        net.params["sigma_apr"] = 10.0
        return net
    def station(net, s, dirs=(), dists=(), sdists=(), zangles=(), angles=()):
        cl = netgen.Cluster("obs", s)
        cl.zero = float(rng.uniform(0, 400))
        for t in dirs:
            cl.obs.append(netgen.Obs("direction", s, t, stdev=10.0))
        for t in dists:
            cl.obs.append(netgen.Obs("distance", s, t, stdev=5.0))
        for t in sdists:
            cl.obs.append(netgen.Obs("s-distance", s, t, stdev=5.0))
        for t in zangles:
            cl.obs.append(netgen.Obs("z-angle", s, t, stdev=10.0))
        for (a, b) in angles:
            cl.obs.append(netgen.Obs("angle", s, bs=a, fs=b, stdev=10.0))
        net.clusters.append(cl)
        return cl
    def finish(net, kind):
        net.kind = "strategy-" + kind
        for cl, o in net.all_obs():
            o.true = netgen.model_value(net, cl, o); o.val = o.true
        return kind, net
    n = base(); station(n, "F0", dirs=("F1", "P")); station(n, "F1", dirs=("F0", "P")); station(n, "F2", dirs=("F3", "P"))
    yield finish(n, "forward-intersection")
    n = base(); station(n, "F0", dists=("P",)); station(n, "F1", dists=("P",)); station(n, "F2", dists=("P",)); station(n, "F3", dists=("P",))
    yield finish(n, "distance-distance")
    n = base(); station(n, "P", dirs=("F0", "F1", "F2", "F3"))
    yield finish(n, "resection-directions")
    n = base(); station(n, "P", angles=(("F0", "F1"), ("F1", "F2"), ("F2", "F3")))
    yield finish(n, "inner-angles")
    n = base(); station(n, "F0", dirs=("F1", "P"), dists=("P",)); station(n, "F2", dists=("P",))
    yield finish(n, "polar")
    n = base()
    R = max(abs(q.E) + abs(q.N) for q in n.points.values())
    n.points["Q"] = netgen.Pt("Q", n.points["P"].E + 0.2 * R, n.points["P"].N - 0.15 * R, 0.0, "free", "none", give_xy=False)
    station(n, "F0", dirs=("F1", "P"), dists=("P",)); station(n, "P", dirs=("F0", "Q"), dists=("Q",))
    station(n, "Q", dirs=("P", "F2"), dists=("F2",)); station(n, "F2", dirs=("Q", "F3"))
    yield finish(n, "traverse")
    n = base(3); station(n, "F0", dirs=("F1", "P"), sdists=("P",), zangles=("P",)); station(n, "F2", dirs=("F3", "P"), sdists=("P",), zangles=("P",))
    yield finish(n, "3d-polar-zenith")
    # heights from zenith angle + slope distance observed with an instrument height only / a target height only
    n = base(3)
    c1 = station(n, "F0", dirs=("F1", "P"), sdists=("P",), zangles=("P",)); c2 = station(n, "F2", dirs=("F3", "P"), sdists=("P",), zangles=("P",))
    one = (None, 2.0) if rng.uniform() < 0.5 else (1.62, None)       # the same side at both stations
    for c, (fdh, tdh) in ((c1, one), (c2, one)):
        for o in c.obs:
            if o.kind in ("s-distance", "z-angle"):
                o.from_dh, o.to_dh = fdh, tdh
    yield finish(n, "3d-polar-zenith-one-sided-heights")
    n = base(3); station(n, "F0", dirs=("F1", "P"), dists=("P",)); station(n, "F1", dirs=("F0", "P"))
    cl = netgen.Cluster("hdiff"); cl.obs.append(netgen.Obs("dh", "F0", "P", stdev=2.0)); cl.obs.append(netgen.Obs("dh", "P", "F2", stdev=2.0)); n.clusters.append(cl)
    yield finish(n, "height-differences")
    # steep slope distances with known heights and no zenith angles: the horizontal position comes from the slope
    # distance reduced with the height difference
    n = base(3)
    d0 = math.hypot(n.points["P"].E - n.points["F0"].E, n.points["P"].N - n.points["F0"].N)
    n.points["P"].H = n.points["F0"].H + float(rng.choice([-1, 1])) * float(rng.uniform(0.08, 0.25)) * d0
    n.points["P"].give_z = True
    station(n, "F0", dirs=("F1", "P"), sdists=("P",)); station(n, "F2", dirs=("F3", "P"), sdists=("P",))
    yield finish(n, "steep-slope-known-heights")
    # the same with one stand-point only: direction + slope distance is then the only determining combination
    # (nothing to out-vote a wrong reduction of the slope distance to the horizontal)
    n = base(3)
    d0 = math.hypot(n.points["P"].E - n.points["F0"].E, n.points["P"].N - n.points["F0"].N)
    n.points["P"].H = n.points["F0"].H + float(rng.choice([-1, 1])) * float(rng.uniform(0.08, 0.25)) * d0
    n.points["P"].give_z = True
    station(n, "F0", dirs=("F1", "P"), sdists=("P",))
    if rng.uniform() < 0.5:
        n.points["P"].z = "fixed"
    else:
        cl = netgen.Cluster("hdiff"); cl.obs.append(netgen.Obs("dh", "F0", "P", stdev=2.0)); n.clusters.append(cl)
    yield finish(n, "steep-slope-polar-known-heights")
    n = base(3)
    cl = netgen.Cluster("vectors")
    for f in ("F0", "F1"):
        a, b = n.points[f], n.points["P"]
        cl.vecs.append([f, "P", b.E - a.E, b.N - a.N, b.H - a.H, None, None])
    cl.cov = dict(band=0, C=np.diag(np.full(6, 25.0)))
    n.clusters.append(cl)
    yield finish(n, "vectors")
    # vectors / levelled height differences that do not reach the unknown point (between given points only): the
    # algorithms working on them must leave the point unresolved for the others (polar + zenith angle here)
    n = base(3)
    station(n, "F0", dirs=("F1", "P"), sdists=("P",), zangles=("P",)); station(n, "F2", dirs=("F3", "P"), sdists=("P",), zangles=("P",))
    cl = netgen.Cluster("vectors")
    for f, t in (("F0", "F1"), ("F2", "F3")):
        a, b = n.points[f], n.points[t]
        cl.vecs.append([f, t, b.E - a.E, b.N - a.N, b.H - a.H, None, None])
    cl.cov = dict(band=0, C=np.diag(np.full(6, 25.0)))
    n.clusters.insert(0, cl)
    yield finish(n, "vectors-elsewhere")
    # a vector between two points without coordinates: it cannot be used before one of them is computed by another
    # algorithm (P: polar + zenith angle); Q hangs on P by the vector alone (+ one redundant slope distance)
    n = base(3)
    n.points["Q"] = netgen.Pt("Q", n.points["P"].E + float(rng.uniform(20, 80)), n.points["P"].N - float(rng.uniform(20, 80)),
                              n.points["P"].H + float(rng.uniform(-5, 5)), "free", "free", give_xy=False, give_z=False)
    station(n, "F0", dirs=("F1", "P"), sdists=("P",), zangles=("P",)); station(n, "F2", dirs=("F3", "P"), sdists=("P",), zangles=("P",))
    station(n, "F1", sdists=("Q",))
    cl = netgen.Cluster("vectors")
    a, b = n.points["P"], n.points["Q"]
    cl.vecs.append(["P", "Q", b.E - a.E, b.N - a.N, b.H - a.H, None, None])
    a, b = n.points["F3"], n.points["F1"]
    cl.vecs.append(["F3", "F1", b.E - a.E, b.N - a.N, b.H - a.H, None, None])
    cl.cov = dict(band=0, C=np.diag(np.full(6, 25.0)))
    n.clusters.insert(0, cl)
    yield finish(n, "vector-between-unknown-points")
    # the same one step longer: R is reached from Q (polar), Q from P (vector), P from the given points (polar)
    n = base(3)
    n.points["Q"] = netgen.Pt("Q", n.points["P"].E + float(rng.uniform(20, 80)), n.points["P"].N - float(rng.uniform(20, 80)),
                              n.points["P"].H + float(rng.uniform(-5, 5)), "free", "free", give_xy=False, give_z=False)
    n.points["R"] = netgen.Pt("R", n.points["Q"].E - float(rng.uniform(30, 90)), n.points["Q"].N - float(rng.uniform(30, 90)),
                              n.points["Q"].H + float(rng.uniform(-5, 5)), "free", "free", give_xy=False, give_z=False)
    station(n, "F0", dirs=("F1", "P"), sdists=("P",), zangles=("P",)); station(n, "F2", dirs=("F3", "P"), sdists=("P",), zangles=("P",))
    station(n, "Q", dirs=("P", "R"), sdists=("R",), zangles=("R",))
    cl = netgen.Cluster("vectors")
    a, b = n.points["P"], n.points["Q"]
    cl.vecs.append(["P", "Q", b.E - a.E, b.N - a.N, b.H - a.H, None, None])
    cl.cov = dict(band=0, C=np.diag(np.full(3, 25.0)))
    n.clusters.insert(0, cl)
    yield finish(n, "polar-vector-polar-chain")
    # a levelled height difference behind a trigonometric height: P from zenith angle + slope distance, Q in the
    # horizontal from two distances and a direction, its height from dh P->Q only
    n = base(3)
    n.points["Q"] = netgen.Pt("Q", n.points["P"].E + float(rng.uniform(20, 80)), n.points["P"].N + float(rng.uniform(20, 80)),
                              n.points["P"].H + float(rng.uniform(-5, 5)), "free", "free", give_xy=False, give_z=False)
    station(n, "F0", dirs=("F1", "P", "Q"), sdists=("P",), zangles=("P",), dists=("Q",)); station(n, "F2", dirs=("F3", "P"), sdists=("P",), zangles=("P",), dists=("Q",))
    cl = netgen.Cluster("hdiff"); cl.obs.append(netgen.Obs("dh", "P", "Q", stdev=2.0)); n.clusters.append(cl)
    yield finish(n, "height-difference-behind-zenith")
    n = base(3)
    station(n, "F0", dirs=("F1", "P"), sdists=("P",), zangles=("P",)); station(n, "F2", dirs=("F3", "P"), sdists=("P",), zangles=("P",))
    cl = netgen.Cluster("hdiff"); cl.obs.append(netgen.Obs("dh", "F0", "F1", stdev=2.0)); cl.obs.append(netgen.Obs("dh", "F2", "F3", stdev=2.0))
    n.clusters.insert(0, cl)
    yield finish(n, "height-differences-elsewhere")


def _determined(net):
    """numpy guard: the design matrix of all observations at the true coordinates has full column rank"""
    from . import C14
    try:
        items = C14.flatten(net)
        P = C14.approx_points(net)
        rank, ncols, _ = C14.determinacy(net, items, {it.n for it in items}, P)
        return rank == ncols
    except Exception:
        return True


def gen_base(seed, i):
    rng = np.random.default_rng([seed, i, 606])
    dim = int(rng.choice([1, 2, 2, 3, 3]))
    feats = []
    if rng.uniform() < 0.5:
        feats.append("angles")
    if rng.uniform() < 0.3:
        feats.append("azimuths")
    if dim == 3 and rng.uniform() < 0.5:
        feats.append("hdiff")
    if dim == 3 and rng.uniform() < 0.4:
        feats.append("dh-heights")
    if dim == 3 and rng.uniform() < 0.3:
        feats.append("vectors")
    if dim >= 2 and rng.uniform() < 0.25:
        feats.append("coords")
    net = netgen.gen_net(rng, dim=dim, noise=False, features=tuple(feats))
    if "dh-heights" in feats:
        # one-sided heights too (instrument height only / target height only)
        for cl, o in net.all_obs():
            if o.from_dh is not None:
                u = rng.uniform()
                if u < 0.25:
                    o.to_dh = None
                elif u < 0.5:
                    o.from_dh = None
                o.true = netgen.model_value(net, cl, o)
                o.val = o.true
    # in omitted-coordinate variants heights come from hdiff: make sure 3D nets that omit have levelling
    return rng, net, feats


def check_run(ck, net, fr, g, label, wit):
    """oracle for one run of a consistent survey"""
    oc = netlevel.outcome(g)
    key0 = "%s:%s" % (net.kind, label.split(":")[0])
    if ck.sanitizer(g.rr, wit, prefix="gama-local:"):
        return False
    if oc != "adjusted" and net.kind.startswith("strategy-") and not any(
            e.get("kind") == "acord" and (e["missing_xy_before"] + e["missing_z_before"]) >
            (e["missing_xy_after"] + e["missing_z_after"]) for e in g.trace):
        # gama's own approximate-coordinate computation gave up on this geometry (the manual: 'able to estimate
        # approximate coordinates in most of the cases'): outside the quantifier, measured only.  The run as a
        # whole is inconclusive unless each strategy solved something somewhere (ck.minimum below).
        ck.inconc("documented strategy did not resolve this geometry: " + net.kind)
        return False
    if oc != "adjusted":
        ck.violation("not-adjusted:%s:%s" % (key0, oc.split(":")[0] + ":" + oc.split(":")[-1]),
                     "consistent determined network was not adjusted: %s %s" % (
                         oc, (g.xml or {}).get("descriptions") if g.xml else g.out[-300:]), wit)
        return False
    R = g.xml
    ok = True
    # nothing removed
    rm = [e for e in g.trace if e.get("kind") in ("rm_point", "rm_obs_abs_term")]
    if rm:
        ck.violation("removed:%s:%s" % (key0, rm[0]["kind"]),
                     "gama removed %s from a consistent determined network" % rm[:3], wit)
        ok = False
    nobs = sum(len(c.obs) for c in net.clusters) + sum(3 * len(c.vecs) for c in net.clusters) + \
        sum((2 if p[1] is not None else 0) + (1 if p[3] is not None else 0) for c in net.clusters for p in c.cpoints)
    if R["equations"] != nobs:
        ck.violation("obs-count:%s" % key0, "%d observations written, %d in the adjustment" % (nobs, R["equations"]), wit)
        ok = False
    npts = sum(1 for q in net.points.values() if q.xy in ("free", "constrained") or q.z in ("free", "constrained"))
    if len(R["adjusted"]) != npts:
        ck.violation("point-count:%s" % key0, "%d points to adjust, %d adjusted" % (npts, len(R["adjusted"])), wit)
        ok = False
    # gama re-linearises only while its linearisation test fires, and that test does not look at zenith
    # angles and azimuths (TestLinearizationVisitor returns 0 for them).  A stop one Gauss-Newton step early in
    # a network containing such observations, with approximations that were not exact, gets its own key
    # (candidate known finding); anything larger, or in any other network, keeps the strict key.
    untested = sorted({o.kind for _, o in net.all_obs() if o.kind in ("z-angle", "azimuth")})
    inexact = not label.startswith("exact")
    eh, ev, wid = netlevel.coord_errors(net, R, fr, split=True)
    e = max(eh, ev)
    res = netlevel.residuals(R)
    # residual tolerance: 1e-3 mm for lengths; for angles the angle subtended by 1e-6 m at the sight length
    sight = {}
    for cl, o in net.all_obs():
        ends = [x for x in (o.to, o.bs, o.fs) if x is not None]
        if o.frm is not None and ends and net.dim >= 2:
            dmin = min(math.hypot(net.points[t].E - net.points[o.frm].E, net.points[t].N - net.points[o.frm].N) for t in ends)
            sight[(netlevel.OBS_TAG.get(o.kind), o.frm, ends[-1])] = dmin
    bad_res, worst_ratio = None, 0.0
    for r in res:
        tol = TOL_RES
        if r[0] in ("direction", "angle", "azimuth", "zenith-angle"):
            d = sight.get((r[0], r[1], r[2]))
            if d:
                tol = max(TOL_RES, 1e-6 / d * 200e4 / math.pi)
        ratio = abs(r[3]) / tol
        if ratio > worst_ratio:
            worst_ratio, bad_res = ratio, r
    w = max((abs(r[3]) for r in res), default=0.0)
    sfx = " (nets with z-angle/azimuth, inexact approximations)" if untested and inexact else ""
    ck.ratio("coordinate error [m]" + sfx, e, TOL_M)
    ck.ratio("residual / tolerance" + sfx, worst_ratio, 1.0)
    if e > TOL_M or worst_ratio > 1.0:
        r = bad_res or ("-", "-", "-", 0.0)
        soft = bool(untested) and inexact and e <= 1e-3 and w <= 100.0
        if soft:
            ck.violation("untested-linearisation:%s" % "+".join(untested),
                         "iteration stopped with coordinates off by %.3g m (horizontal %.3g, height %.3g) and residual "
                         "%.3g (%s %s->%s) after %d iterations in an error-free %s survey with %s approximate "
                         "coordinates" % (e, eh, ev, r[3], r[0], r[1], r[2], R["iterations"], net.kind,
                                          label.split(":")[0]), wit)
        else:
            if e > TOL_M:
                ck.violation("coordinates:%s" % key0, "adjusted coordinates differ from the generating ones by "
                             "%.3g m (horizontal %.3g, height %.3g; point %s, %d iterations)" % (
                                 e, eh, ev, wid, R["iterations"]), wit)
            if worst_ratio > 1.0:
                ck.violation("residuals:%s:%s" % (key0, r[0]), "residual %.3g of %s %s->%s in an error-free "
                             "survey (%.1f x tolerance)" % (r[3], r[0], r[1], r[2], worst_ratio), wit)
        ok = False
    return ok


def run(tier, seed, only=None):
    runner.build("san", targets=["gama-local"])
    ck = Check("C06", tier, seed,
               "generated consistent 1D/2D/3D networks (all points stations, directions/distances/angles/azimuths/"
               "slope distances/zenith angles/levelling/vectors/observed coordinates), variants: approximate "
               "coordinates exact / perturbed <= 0.2 m / omitted for a resolvable subset, heights of instrument and "
               "target; + monotonicity (adding consistent observations). class = (network kind, variant, features, "
               "algorithm)")
    n = tier_n(tier, 180, 1500)
    algs = netlevel.ALGS
    jobs = []
    for i in range(n):
        if only is not None and i != only:
            continue
        rng, base, feats = gen_base(seed, i)
        if "fixed" in base.kind and not _determined(base):
            # the drawn survey does not determine all its points (e.g. a stand-point with two directions that nobody
            # observes): gama is right to remove them, nothing to judge here
            ck.inconc("generated network is not determined (numpy rank guard)")
            continue
        vs = list(variants(rng, base))
        # monotonicity: a sub-survey (some redundant observations dropped) and the full survey
        for vi, (vname, net) in enumerate(vs):
            alg_list = algs if tier == "thorough" else [algs[(i + vi) % 4]]
            for alg in alg_list:
                jobs.append((i, vname, net, feats, alg))
    # documented strategies for approximate coordinates, one at a time
    for i in range(tier_n(tier, 18, 150)):
        if only is not None:
            break
        rng = np.random.default_rng([seed, i, 6161])
        for sname, snet in strategy_nets(rng):
            jobs.append((100000 + i, "omitted-" + sname, snet, ["strategy"], algs[i % 4]))
    fr = netgen.Frame()
    # monotonicity: a sub-survey (random ~40 % of the observations dropped, possibly no longer determined) versus
    # the full survey: every point gama determines from the sub-survey must also be determined from the full one
    mono = []
    for i in range(n):
        if only is not None and i != only:
            continue
        if i % 2:
            continue
        rng, base, feats = gen_base(seed, i)
        sub = base.clone()
        r2 = np.random.default_rng([seed, i, 6060])
        for cl in sub.clusters:
            if cl.kind in ("obs", "hdiff"):
                keep = [k for k in range(len(cl.obs)) if r2.uniform() > 0.4]
                cl.obs = [cl.obs[k] for k in keep]
                cl.cov = None
        sub.clusters = [c for c in sub.clusters if c.obs or c.vecs or c.cpoints]
        # omit approximate coordinates of all unknown points: determination then rests on the observations alone
        for net_ in (sub, base):
            pass
        s2, b2 = sub.clone(), base.clone()
        for q in list(s2.points.values()) + list(b2.points.values()):
            if q.xy == "free":
                q.give_xy = False
            if q.z == "free":
                q.give_z = False
        mono.append((i, s2, b2, feats, algs[i % 4]))

    def work_mono(job):
        i, sub, full, feats, alg = job
        gs = xmlout.run_gama_local(netgen.to_gkf(sub, fr), ck.tmp, "m%d-sub" % i, args=["--algorithm", alg], trace=True)
        gf = xmlout.run_gama_local(netgen.to_gkf(full, fr), ck.tmp, "m%d-full" % i, args=["--algorithm", alg], trace=True)
        return job, gs, gf

    for (i, sub, full, feats, alg), gs, gf in runner.pmap(work_mono, mono):
        wit = dict(seed=seed, index=i, variant="monotonicity", alg=alg, kind=full.kind, features=feats)
        if ck.sanitizer(gs.rr, dict(wit, input=netgen.to_gkf(sub, fr)), prefix="gama-local:") or \
                ck.sanitizer(gf.rr, dict(wit, input=netgen.to_gkf(full, fr)), prefix="gama-local:"):
            continue
        if gs.rr.timeout or gf.rr.timeout:
            ck.inconc("timeout")
            continue
        det_sub = set(gs.xml["adjusted"]) if gs.xml and gs.xml["kind"] == "adjustment" else set()
        det_full = set(gf.xml["adjusted"]) if gf.xml and gf.xml["kind"] == "adjustment" else set()
        lost = sorted(det_sub - det_full)
        ck.case((full.kind, "monotonicity", "sub-determined:%s" % ("all" if len(det_sub) == len(det_full) else "some" if det_sub else "none"), alg))
        ck.count("monotonicity pairs")
        if lost:
            ck.violation("monotonicity:%s" % full.kind, "points %s are determined from a sub-survey but not from the full "
                         "survey (outcome full: %s)" % (lost, netlevel.outcome(gf)),
                         dict(wit, sub_input=netgen.to_gkf(sub, fr), full_input=netgen.to_gkf(full, fr)))
        elif det_sub and gs.xml["kind"] == "adjustment":
            # a random sub-survey need not be uniquely determined (e.g. a point held by two distances has a mirror
            # solution), so a different but consistent answer is not a violation: measured only
            e, wid = netlevel.coord_errors(sub, gs.xml, fr)
            w = max((abs(r[3]) for r in netlevel.residuals(gs.xml)), default=0.0)
            if e > 1e-3:
                ck.count("sub-survey answers differing from the generating coordinates (%s)" % (
                    "consistent: alternative solution" if w < 1e-2 else "inconsistent: residuals up to %.0e" % w))

    def work(job):
        i, vname, net, feats, alg = job
        txt = netgen.to_gkf(net, fr)
        g = xmlout.run_gama_local(txt, ck.tmp, "c%d-%s-%s" % (i, vname, alg), args=["--algorithm", alg], trace=True)
        return job, g

    for (i, vname, net, feats, alg), g in runner.pmap(work, jobs):
        wit = dict(seed=seed, index=i, variant=vname, alg=alg, kind=net.kind, features=feats,
                   input=netgen.to_gkf(net, fr) if len(ck.violations) < 5 else None)
        if g.rr.timeout:
            ck.inconc("timeout")
            continue
        check_run(ck, net, fr, g, vname + ":" + alg, wit)
        ck.case((net.kind, vname.rstrip("0123456789"), "+".join(sorted(feats)) or "plain", alg))
        if g.xml and g.xml["kind"] == "adjustment":
            ck.count("linearization iterations", g.xml["iterations"])
        # which approximate-coordinate strategies actually produced coordinates (acord hook): coverage evidence
        for e in g.trace:
            if e.get("kind") == "acord":
                got = (e["missing_xy_before"] - e["missing_xy_after"]) + (e["missing_z_before"] - e["missing_z_after"])
                cand = e["candidates_xy"] + e["candidates_z"]
                ck.count("acord:%s:%s" % (e["algorithm"], "solved-or-proposed" if (got or cand) else "ran"))
        if i < 2 and vname == "exact":
            ck.sample(dict(index=i, kind=net.kind, features=feats, points=len(net.points),
                           observations=sum(len(c.obs) for c in net.clusters)))
    ck.assumptions += ["the python observation model (netgen.model_value) follows the manual's definitions",
                       "omitted subsets restricted to chains of polar steps / levelled height differences from points "
                       "with coordinates (documented strategy)"]
    # the check is inconclusive unless the documented strategies were actually exercised
    ck.minimum = dict(evaluations=tier_n(tier, 100, 3000), distinct=20)
    ck.minimum["acord:AcordPolar:solved-or-proposed"] = 1
    ck.minimum["acord:AcordHdiffs:solved-or-proposed"] = 1
    ck.minimum["acord:AcordIntersection:solved-or-proposed"] = 1
    ck.minimum["acord:AcordTraverse:solved-or-proposed"] = 1
    ck.minimum["acord:AcordZderived:solved-or-proposed"] = 1
    return ck.finish()


def replay(path):
    w = json.load(open(path))
    return run(w["tier"], w["witness"]["seed"], only=w["witness"]["index"])
