"""C08 — the choice of datum in a free network changes only the datum.
Relational monitor: one noisy free network, several admissible sets of constrained points (admissibility
decided by the numpy reference on the recorded linear system), all four algorithms."""
import itertools
import json
import math
import numpy as np

from .. import runner, netgen, xmlout, netlevel, lsq
from ..runner import Check, tier_n


def gen_base(seed, i):
    rng = np.random.default_rng([seed, i, 808])
    dim = int(rng.choice([1, 2, 2, 3]))
    feats = []
    if dim >= 2 and rng.uniform() < 0.4:
        feats.append("angles")
    if dim == 3 and rng.uniform() < 0.5:
        feats.append("hdiff")
    if rng.uniform() < 0.3:
        feats.append("cov")
    net = netgen.gen_net(rng, dim=dim, datum="free", noise=True, features=tuple(feats))
    if dim == 2 and rng.uniform() < 0.35:
        # no distances: scale is free too (defect 4)
        for cl in net.clusters:
            if cl.kind == "obs":
                keep = [k for k, o in enumerate(cl.obs) if o.kind not in ("distance",)]
                if cl.cov is not None:
                    C = np.array(cl.cov["C"])[np.ix_(keep, keep)]
                    cl.cov = dict(band=min(cl.cov["band"], max(len(keep) - 1, 0)), C=C)
                    # keep the exact band of the sub-matrix
                    nz = [abs(a - b) for a in range(len(keep)) for b in range(len(keep)) if C[a, b] != 0]
                    cl.cov["band"] = max(nz) if nz else 0
                cl.obs = [cl.obs[k] for k in keep]
        net.kind += "-nodist"
    if rng.uniform() < 0.4:
        # approximate coordinates of ALL unknown points off by up to 1 m (the same in every constraint set): several
        # linearisation iterations, in which constrained and unconstrained points must be refined alike.  Zenith
        # angles and azimuths are taken out of these networks (gama's test on linearisation does not cover them:
        # C06 known finding), heights then rest on slope distances and levelled height differences.
        for cl in net.clusters:
            if cl.kind == "obs":
                keep = [k for k, o in enumerate(cl.obs) if o.kind not in ("z-angle", "azimuth")]
                if len(keep) != len(cl.obs):
                    if cl.cov is not None:
                        C = np.array(cl.cov["C"])[np.ix_(keep, keep)]
                        nz = [abs(a - b) for a in range(len(keep)) for b in range(len(keep)) if C[a, b] != 0]
                        cl.cov = dict(band=max(nz) if nz else 0, C=C)
                    cl.obs = [cl.obs[k] for k in keep]
        if net.dim == 3 and not any(c.kind == "hdiff" for c in net.clusters):
            netgen._levelling(rng, net, list(net.points), (), partial=False)
            for c in net.clusters:
                if c.kind == "hdiff":
                    for o in c.obs:
                        if o.true is None:
                            o.true = netgen.model_value(net, c, o)
                            o.val = o.true + float(rng.normal(0, o.stdev)) / 1000.0
        for q in net.points.values():
            if q.xy in ("free", "constrained"):
                q.dE, q.dN = [float(x) for x in rng.uniform(-1, 1, 2)]
            if q.z in ("free", "constrained"):
                q.dH = float(rng.uniform(-1, 1))
        net.params["tol_abs"] = 1e5
        net.kind += "-perturbed"
        feats.append("perturbed-approximations")
    return rng, net, feats


def with_constraints(net, subset):
    v = net.clone()
    for pid, q in v.points.items():
        on = pid in subset
        if q.xy in ("free", "constrained"):
            q.xy = "constrained" if on else "free"
        if q.z in ("free", "constrained"):
            q.z = "constrained" if on else "free"
    return v


def shape_invariants(net, P):
    """similarity-invariant functions of the adjusted configuration: all distances / height differences"""
    ids = sorted(P)
    out = {}
    for a, b in itertools.combinations(ids, 2):
        if "E" in P[a] and "E" in P[b]:
            out[("d", a, b)] = math.hypot(P[a]["E"] - P[b]["E"], P[a]["N"] - P[b]["N"])
        if "H" in P[a] and "H" in P[b]:
            out[("h", a, b)] = P[a]["H"] - P[b]["H"]
    return out


def run(tier, seed, only=None):
    runner.build("san", targets=["gama-local"])
    ck = Check("C08", tier, seed,
               "noisy free networks (levelling d=1; 2D with distances d=3, without d=4; 3D d=4) x several admissible "
               "sets of constrained points x 4 algorithms: residuals, sum of squares, dof, adjusted observations and "
               "their standard deviations and all inter-point distances / height differences must agree; per run the "
               "corrections must be orthogonal to the datum transformations restricted to the constrained subset "
               "(numpy reference on the recorded system). class = (network kind, defect, subset size class, algorithm)")
    n = tier_n(tier, 96, 500)
    nsub = tier_n(tier, 4, 5)
    fr = netgen.Frame()
    jobs = []
    for i in range(n):
        if only is not None and i != only:
            continue
        rng, net, feats = gen_base(seed, i)
        ids = [p for p, q in net.points.items()]
        subsets = [tuple(ids)]
        tries = 0
        while len(subsets) < nsub + 1 and tries < 50:
            tries += 1
            k = int(rng.integers(2 if net.dim >= 2 else 1, len(ids) + 1))
            s = tuple(sorted(str(x) for x in rng.choice(ids, k, replace=False)))
            if s not in subsets:
                subsets.append(s)
        algs = netlevel.ALGS if tier == "thorough" else [netlevel.ALGS[i % 4], netlevel.ALGS[(i + 1) % 4]]
        for alg in algs:
            for si, s in enumerate(subsets):
                jobs.append((i, si, s, net, feats, alg))

    def work(job):
        i, si, s, net, feats, alg = job
        v = with_constraints(net, set(s))
        txt = netgen.to_gkf(v, fr)
        g = xmlout.run_gama_local(txt, ck.tmp, "c%d-s%d-%s" % (i, si, alg), args=["--algorithm", alg], trace=True)
        return job, g, txt

    res = runner.pmap(work, jobs)
    groups = {}
    for (i, si, s, net, feats, alg), g, txt in res:
        groups.setdefault((i, alg), []).append((si, s, net, feats, g, txt))
    for (i, alg), lst in sorted(groups.items()):
        lst.sort(key=lambda t: t[0])
        base = None
        lin_mm = 0.0
        lin_m0 = 0.0
        for si, s, net, feats, g, txt in lst:
            wit = dict(seed=seed, index=i, subset=list(s), alg=alg, kind=net.kind, features=feats)
            if ck.sanitizer(g.rr, wit, prefix="gama-local:"):
                continue
            if g.rr.timeout:
                ck.inconc("timeout")
                continue
            evs = netlevel.adjust_events(g)
            oc = netlevel.outcome(g)
            # admissibility of the subset: decided by the reference on the first recorded system
            admissible = None
            if evs:
                ref0 = lsq.Reference(netlevel.event_problem(evs[0]))
                admissible = bool(ref0.ok and ref0.subset_ok)
                defect = ref0.defect
            if oc == "adjusted" and (any(e.get("kind") == "rm_point" for e in g.trace) or
                                     (base is not None and set(netlevel.physical_result(g.xml, fr)["points"]) != set(base[0]["points"]))):
                # gama answered the constraint set by removing points: the set does not resolve the defect of this
                # network (the recorded system is the one after the removal) -- C20's subject, not an admissible set
                if si == 0:
                    ck.inconc("base (all points constrained) adjusted only after removing points")
                    break
                ck.count("constraint sets answered by removing points (left to C20)")
                continue
            if oc != "adjusted":
                if si == 0:
                    ck.inconc("base (all points constrained) not adjusted: " + oc)
                    break
                if admissible:
                    ck.violation("admissible-subset-refused:%s" % net.kind,
                                 "constraint subset %s resolves the defect (reference) but gama-local: %s" % (list(s), oc),
                                 dict(wit, input=txt))
                else:
                    ck.count("inadmissible subsets refused")
                continue
            if admissible is False:
                ck.count("inadmissible subsets adjusted (left to C20)")
                continue
            # per run: minimum-norm / orthogonality on every recorded system
            for ev in evs:
                bad, ref = netlevel.check_adjust_event(ck, ev, tag="event")
                for key, msg in bad:
                    if key.endswith(":defect-undercounted") or key.endswith(":v=Ax-b"):
                        key += ":" + net.kind.replace("-perturbed", "")
                    ck.violation(key, msg + " [%s subset %s case %d]" % (net.kind, list(s), i), dict(wit, input=txt))
            R = netlevel.physical_result(g.xml, fr)
            if si == 0:
                expected = {1: 1, 2: 3, 3: 4}[net.dim] + (1 if "nodist" in net.kind else 0)
                if defect != expected:
                    # the thinned network has a configuration defect on top of the datum defect (e.g. a station with
                    # two directions that nobody observes): the shape itself is then not determined -- C20's subject
                    ck.count("networks with a configuration defect beyond the datum (left to C20)")
                    break
                base = (R, txt, s)
                # what the stopping rule of the linearisation iterations leaves open in the coordinates [mm]
                lin_mm = netlevel.linearisation_bound(ref0, evs[0]["minx"] or []) if evs else 0.0
                if evs and len(evs[-1]["x"]) == ref0.n:
                    # + what Gauss-Newton neglects (change of the design matrix x residuals)
                    lin_mm += netlevel.linearisation_bound_residual_term(ref0, evs[0]["minx"] or [], evs[-1]["x"], netlevel.min_sight(net))
                lin_m0 = netlevel.linearisation_bound_m0(ref0, evs[0]["minx"] or [], evs[-1]["x"] if len(evs[-1]["x"]) == ref0.n else evs[0]["x"]) if evs else 0.0
                continue
            if base is None:
                continue
            ck.case((net.kind, "defect%d" % defect, "subset:%s" % ("all" if len(s) == len(net.points) else
                                                                     "min" if len(s) <= 2 else "some"), alg))
            B, txt0, s0 = base
            # different constraint sets linearise at approximate coordinates that differ by the datum shift; gama
            # stops iterating once the linearisation error is below 0.0005 mm, so residuals may differ by that much
            # and v'Pv / standard deviations by ~2*(0.0005 mm / |v|) ~ 2e-4 relative
            # angular residuals: 0.0005 mm at a 30 m sight is 0.01 cc
            # (the same rule bounds v'Pv: |d sqrt(v'Pv)| / sqrt(v'Pv) <= sum |vw| ew / v'Pv per run, from the recorded system)
            rel_lin = max(netlevel.rel_between_linearisation_points(net), 2 * lin_m0)
            ck.ratio("relative linearisation bound on m0 / 2e-4", 2 * lin_m0, 2e-4)
            if not math.isfinite(rel_lin) or rel_lin > 0.05:
                ck.inconc("a posteriori deviation not determined to 5 % by the linearisation criterion (tiny v'Pv)")
                continue
            bad = netlevel.compare_physical(B, R, rel=rel_lin, what=("obs", "stats"), res_tol=1e-2)
            corr = netlevel.correlated_obs_keys(net)
            seen = set()
            for key, msg, okey in bad:
                if okey is not None and okey in corr and key.split(":")[1] in ("stdev", "qrr", "f"):
                    key = "correlated-cluster:obs:" + key.split(":")[1]
                if key in seen:
                    continue
                seen.add(key)
                ck.violation("datum:%s" % key, "%s  [constraints %s vs all points; %s, case %d]" % (msg, list(s), net.kind, i),
                             dict(wit, input=txt, base_input=txt0))
            ia, ib = shape_invariants(net, B["points"]), shape_invariants(net, R["points"])
            if "nodist" in net.kind:
                # scale belongs to the datum: compare distances after normalising both configurations to the
                # same total length (similarity invariants)
                sa = sum(v for k, v in ia.items() if k[0] == "d")
                sb = sum(v for k, v in ib.items() if k[0] == "d")
                ib = {k: (v * sa / sb if k[0] == "d" else v) for k, v in ib.items()}
            worst = 0.0
            for k in ia:
                if k in ib:
                    worst = max(worst, abs(ia[k] - ib[k]))
            # gama re-linearises only while its test on linearisation (0.0005 mm) fires, and the datum shift between
            # two constraint sets is a first-order transformation: 1e-6 m as in C06
            # (two runs, two end points of a distance)
            tol_shape = max(1e-6, 4e-3 * lin_mm)
            ck.ratio("shape invariants / max(1e-6 m, linearisation bound)", worst, tol_shape)
            ck.ratio("linearisation bound [m] / 1e-6", 4e-3 * lin_mm, 1e-6)
            if worst > tol_shape:
                ck.violation("datum:shape:%s" % net.kind, "distances / height differences between adjusted points differ by "
                             "%.3g m between constraint sets %s and all" % (worst, list(s)), dict(wit, input=txt, base_input=txt0))
            if len(ck.samples) < 3:
                ck.sample(dict(index=i, kind=net.kind, defect=defect, subset=list(s), alg=alg))
    # witnesses of repaired defects (kept as regression inputs): the four algorithms must report the same defect,
    # degrees of freedom and sum of squares
    import os
    for name in ("C08-repro-envelope-defect-undercounted.gkf",):
        path = os.path.join(os.path.dirname(os.path.dirname(os.path.dirname(os.path.abspath(__file__)))), "findings", name)
        if only is not None or not os.path.exists(path):
            continue
        txt = open(path).read()
        runs = netlevel.run4(txt, ck.tmp, "regress-" + name.split(".")[0], trace=False)
        vals = {}
        for alg, g in runs.items():
            if ck.sanitizer(g.rr, dict(regress=name, alg=alg), prefix="gama-local:"):
                continue
            if netlevel.outcome(g) == "adjusted":
                vals[alg] = (g.xml["defect"], g.xml["dof"], round(g.xml["sum_of_squares"], 3))
        ck.case(("regress", name))
        if len(vals) == 4 and len(set(vals.values())) != 1:
            ck.violation("regress:%s:defect-dof-ss" % name.split(".")[0],
                         "the four algorithms disagree on (defect, dof, v'Pv) of a witness of a repaired defect: %s" % vals,
                         dict(regress=name))
    ck.assumptions += ["numpy SVD null space of the recorded design matrix decides which constraint subsets are admissible",
                       "shape invariants compared to max(1e-6 m, first-order bound of what the documented linearisation criterion (0.0005 mm per observation) leaves open in the coordinates, from the recorded system)"]
    ck.minimum = dict(evaluations=tier_n(tier, 60, 2000), distinct=10)
    return ck.finish()


def replay(path):
    w = json.load(open(path))
    return run(w["tier"], w["witness"]["seed"], only=w["witness"]["index"])
