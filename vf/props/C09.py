"""C09 — reported statistics are consistent with the adjustment they describe.
Offline checker over the result XML (independent reader) plus the recorded linear system (`adjust` trace
event): every numeric field is recomputed from the other fields / from the reference cofactor matrix.
Relation: scaling sigma-apr rescales v'Pv (and what is defined relative to it) and nothing else."""
import json
import math
import numpy as np
from scipy import stats

from .. import runner, netgen, xmlout, netlevel, lsq
from ..runner import Check, tier_n

ANG = ("direction", "angle", "azimuth", "zenith-angle")


def prec_tol(v, sig):
    """absolute tolerance of a value printed with `sig` significant digits (scientific)"""
    return 0.6 * 10.0 ** (math.floor(math.log10(abs(v))) - sig + 1) if v else 0.0


def check_result(ck, net, g, wit, frame_consistent=True):
    R = g.xml
    evs = netlevel.adjust_events(g)
    if not evs:
        ck.inconc("no adjust event")
        return
    ev = evs[-1]
    bad = []
    # 1 degrees of freedom
    if R["dof"] != R["equations"] - R["unknowns"] + R["defect"]:
        bad.append(("dof", "dof %d != %d - %d + %d" % (R["dof"], R["equations"], R["unknowns"], R["defect"])))
    if R["equations"] != ev["m"] or R["unknowns"] != ev["n"] or R["defect"] != ev["defect"]:
        bad.append(("counts-vs-system", "XML says %d x %d defect %d, adjusted system %d x %d defect %d" % (
            R["equations"], R["unknowns"], R["defect"], ev["m"], ev["n"], ev["defect"])))
    # 2 a posteriori reference deviation
    ss = ev["pvv"]
    if abs(R["sum_of_squares"] - ss) > prec_tol(ss, 8) + 1e-12:
        bad.append(("sum-of-squares", "XML %.9g, adjustment %.12g" % (R["sum_of_squares"], ss)))
    apost = math.sqrt(ss / R["dof"]) if R["dof"] > 0 else 0.0
    if abs(R["aposteriori"] - apost) > prec_tol(apost, 8) + 1e-12:
        bad.append(("aposteriori", "XML %.9g, sqrt(v'Pv/dof) = %.12g" % (R["aposteriori"], apost)))
    want_used = net.params["sigma_act"]
    if R["used"] != want_used:
        bad.append(("used", "sigma-act=%s requested, XML says %s" % (want_used, R["used"])))
    if abs(R["apriori"] - net.params["sigma_apr"]) > prec_tol(net.params["sigma_apr"], 8):
        bad.append(("apriori", "XML %.9g, input %.9g" % (R["apriori"], net.params["sigma_apr"])))
    m0 = net.params["sigma_apr"] if want_used == "apriori" else apost
    m0a = net.params["sigma_apr"]
    # 7 confidence scale
    conf = net.params["conf_pr"]
    if abs(R["probability"] - conf) > 6e-4:
        bad.append(("probability", "XML %.3f, input %.6g" % (R["probability"], conf)))
    a2 = (1 - conf) / 2
    if want_used == "apriori":
        cs, ctol = stats.norm.isf(a2), 1e-6
    elif R["dof"] > 0:
        cs, ctol = stats.t.isf(a2, R["dof"]), 5e-4
    else:
        cs, ctol = 0.0, 0.0
    if abs(R["confidence_scale"] - cs) > ctol * abs(cs) + prec_tol(cs, 8) + 1e-12:
        bad.append(("confidence-scale:" + want_used, "XML %.9g, quantile %.9g (dof %d, conf %.6g)" % (
            R["confidence_scale"], cs, R["dof"], conf)))
    # 12 test of the reference deviation
    if R["dof"] > 0:
        ratio = apost / m0a
        if abs(R["ratio"] - ratio) > 6e-4:
            bad.append(("ratio", "XML %.3f, aposteriori/apriori = %.6f" % (R["ratio"], ratio)))
        lo = math.sqrt(stats.chi2.isf(1 - a2, R["dof"]) / R["dof"])
        up = math.sqrt(stats.chi2.isf(a2, R["dof"]) / R["dof"])
        for nm, val, refv in (("lower", R["lower"], lo), ("upper", R["upper"], up)):
            if abs(val - refv) > 6e-4 + 3e-3 * refv:
                bad.append(("chi2-bound:" + nm, "XML %s %.3f, chi-square bound %.5f (dof %d, conf %.6g)" % (nm, val, refv, R["dof"], conf)))
        margin = 5e-3 * max(lo, up) + 1e-3
        if min(abs(ratio - lo), abs(ratio - up)) > margin:
            want = "passed" if lo < ratio < up else "failed"
            if R["test"] != want:
                bad.append(("test-verdict", "ratio %.5f bounds (%.5f, %.5f): XML says %s" % (ratio, lo, up, R["test"])))
    else:
        if R["test"] != "na":
            bad.append(("test-verdict:dof0", "dof 0 but verdict %s" % R["test"]))
    # reference cofactors from the recorded system
    P = netlevel.event_problem(ev)
    ref = lsq.Reference(P)
    if not (ref.ok and ref.subset_ok):
        ck.inconc("system not admitted")
        for k, msg in bad:
            ck.violation(k, msg, wit)
        return
    Q = ref.Q
    ys = ev["y_sign"]
    # 6 covariance matrix of the adjusted unknowns
    lab = xmlout.cov_labels(R)
    idx = {}
    oris = [k for k, u in enumerate(ev["unknowns"]) if u["type"] == "R"]
    for k, u in enumerate(ev["unknowns"]):
        idx[(u["id"], u["type"])] = k
    C = xmlout.cov_matrix(R)
    order, sgn = [], []
    for (pid, ax) in lab:
        if pid == "orientation":
            order.append(oris[ax]); sgn.append(ys)
        else:
            order.append(idx[(pid, ax.upper())]); sgn.append(ys if ax == "y" else 1.0)
    order = np.array(order); sgn = np.array(sgn)
    Cref = (m0 * m0) * Q[np.ix_(order, order)] * np.outer(sgn, sgn)
    mask = ~np.isnan(C)
    scale = float(np.max(np.abs(Cref))) if Cref.size else 1.0
    err = np.abs(C - Cref)
    tolm = 2e-7 * np.abs(Cref) + ref.tol(scale) * 10 + 1e-7 * scale
    if np.any(err[mask] > tolm[mask]):
        i, j = np.argwhere(mask & (err > tolm))[0]
        bad.append(("cov-mat:value", "cov(%s,%s): XML %.9g, m0^2 Q = %.9g" % (lab[i], lab[j], C[i, j], Cref[i, j])))
    ck.ratio("cov-mat", float(np.max((err / np.maximum(tolm, 1e-300))[mask])) if mask.any() else 0.0, 1.0)
    # 8 error ellipses
    for pid, (a, b, alpha) in R["ellipses"].items():
        ix, iy = idx.get((pid, "X")), idx.get((pid, "Y"))
        if ix is None:
            continue
        S = (m0 * m0) * np.array([[Q[ix, ix], Q[ix, iy]], [Q[iy, ix], Q[iy, iy]]])
        w, V = np.linalg.eigh(S)
        maj, mino = math.sqrt(max(w[1], 0.0)), math.sqrt(max(w[0], 0.0))
        t = 1e-6 * max(maj, 1e-12) + ref.tol(max(maj, 1e-12)) * 10
        if abs(a - maj) > t or abs(b - mino) > t + 1e-4 * maj * (1 if mino < 1e-3 * maj else 0):
            bad.append(("ellipse:axes", "%s axes XML (%.9g, %.9g), eigen-decomposition (%.9g, %.9g)" % (pid, a, b, maj, mino)))
        if not (a >= b >= 0):
            bad.append(("ellipse:order", "%s major %.6g minor %.6g" % (pid, a, b)))
        if not (-1e-12 <= alpha < math.pi + 1e-12):
            bad.append(("ellipse:alpha-range", "%s alpha %.9g rad outside [0, pi)" % (pid, alpha)))
        if maj - mino > 1e-3 * maj:
            vx, vy = V[0, 1], V[1, 1]          # eigenvector of the larger eigenvalue in (x, y) of the system
            al = math.atan2(vy, vx) % math.pi
            d = abs((alpha - al + math.pi / 2) % math.pi - math.pi / 2)
            if d > 1e-6 + 1e-5 * maj / (maj - mino):
                bad.append(("ellipse:alpha", "%s alpha XML %.9g, major-axis direction %.9g rad" % (pid, alpha, al)))
    # 5, 9, 10, 11 per observation
    corr = set()
    r0 = 0
    for bl in ev["blocks"]:
        if bl["band"] > 0:
            corr.update(range(r0, r0 + bl["dim"]))
        r0 += bl["dim"]
    A = ref.A
    qL = np.einsum("ij,jk,ik->i", A, Q, A)
    v = np.array(ev["r"])
    if len(R["observations"]) != ev["m"]:
        bad.append(("obs-count", "%d observations listed, %d equations" % (len(R["observations"]), ev["m"])))
    else:
        worst = dict(stdev=0.0, qrr=0.0, f=0.0)
        for i, o in enumerate(R["observations"]):
            sd_in = ev["obs"][i]["stdev"]
            p = (m0a / sd_in) ** 2
            if i in corr:
                ck.count("correlated observations skipped (known finding C07)")
                continue
            sref = m0 * math.sqrt(max(qL[i], 0.0))
            t = 1e-9 + 1e-6 * sref + ref.tol(max(sref, 1e-12)) * 10
            worst["stdev"] = max(worst["stdev"], abs(o["stdev"] - sref) / t)
            if abs(o["stdev"] - sref) > t:
                bad.append(("obs:stdev:" + o["tag"], "%s %s->%s stdev XML %.9g, m0 sqrt(a Q a') = %.9g" % (
                    o["tag"], o.get("from"), o.get("to"), o["stdev"], sref)))
            qrr = max(1.0 / p - qL[i], 0.0)
            if abs(o["qrr"] - qrr) > 6e-4 + 1e-6 * qrr:
                bad.append(("obs:qrr:" + o["tag"], "%s %s->%s qrr XML %.3f, 1/p - q_L = %.6f" % (
                    o["tag"], o.get("from"), o.get("to"), o["qrr"], qrr)))
            f = 100 * abs(1 - math.sqrt(max(qL[i] * p, 0.0)))
            if abs(o["f"] - f) > 6e-4 + 1e-6 * f:
                bad.append(("obs:f:" + o["tag"], "%s f XML %.3f, 100(1 - mL/ml) = %.6f" % (o["tag"], o["f"], f)))
            if "std-residual" in o and qrr > 1e-9 and m0 > 0:
                sr = abs(v[i]) / (m0 * math.sqrt(qrr))
                # qrr is recomputed in full precision; tolerance from 3 printed decimals
                if abs(o["std-residual"] - sr) > 6e-4 + 1e-5 * sr:
                    bad.append(("obs:std-residual:" + o["tag"], "XML %.3f, |v|/(m0 sqrt(qrr)) = %.6f" % (o["std-residual"], sr)))
            elif f >= 0.1 + 1e-3 and "std-residual" not in o:
                bad.append(("obs:std-residual-missing", "f = %.3f >= 0.1 but no std-residual" % f))
        ck.ratio("obs stdev", worst["stdev"], 1.0)
    seen = set()
    for k, msg in bad:
        if k in seen:
            continue
        seen.add(k)
        ck.violation(k, msg + " [%s %s sigma-act=%s dof=%d]" % (net.kind, wit["alg"], want_used, R["dof"]), wit)
    return R, ev, m0


def gen(seed, i):
    rng, net, feats = netlevel.gen_mixed(seed, i, 909)
    net.params["sigma_act"] = str(rng.choice(["aposteriori", "apriori"]))
    net.params["conf_pr"] = float(rng.choice([0.95, 0.5, 0.999, 0.9, 0.6827])) if rng.uniform() < 0.6 else \
        float(np.round(rng.uniform(0.01, 0.995), 3))
    if i % 5 == 2:
        # excluded observations in the middle of clusters that mix standard deviations (a blundered direction
        # is followed by distances, a blundered distance by zenith angles / angles): the statistics of the
        # remaining observations must still belong to them
        cand = [(cl, k) for cl in net.clusters if cl.kind == "obs" and cl.cov is None
                for k, o in enumerate(cl.obs) if o.kind in ("direction", "distance") and k < len(cl.obs) - 1]
        for idx in rng.permutation(len(cand))[:3]:
            cl, k = cand[int(idx)]
            o = cl.obs[k]
            if o.kind == "direction":
                o.val = (o.val + 37.0) % 400.0
            else:
                o.val += 25.0
        feats = feats + ["excluded-obs"]
    if i % 4 == 3:
        rng2 = np.random.default_rng([seed, i, 9090])
        net = netgen.gen_net(rng2, dim=2, datum="fixed", noise=True, features=())
        # dof 0,1,2,3 in turn, mostly with the a posteriori deviation (Student quantile with that dof)
        net.params["sigma_act"] = "apriori" if (i // 4) % 5 == 4 else "aposteriori"
        net.params["conf_pr"] = float(np.round(rng.uniform(0.01, 0.995), 3))
        net.params["_extra"] = (i // 4) % 4
        _reduce_to_low_dof(rng, net)
        net.params.pop("_extra", None)
        feats = ["low-dof"]
    if any(c.kind == "vectors" for c in net.clusters) and rng.uniform() < 0.6:
        # coordinate differences first: they index the x of both end points before any y, so x and y of a point
        # are not neighbours in the list of unknowns (ellipses, covariances and their labels must not assume it)
        net.clusters = [c for c in net.clusters if c.kind == "vectors"] + [c for c in net.clusters if c.kind != "vectors"]
        feats = feats + ["vectors-first"]
    return rng, net, feats


def _reduce_to_low_dof(rng, net):
    """drop redundant observations so that dof becomes small (0..3): keep per free point one polar
    determination; used to reach the dof=0 branches"""
    if net.dim != 2:
        return
    fixed = [p for p, q in net.points.items() if q.xy == "fixed"]
    if len(fixed) < 2:
        return
    st = fixed[0]
    keep = []
    for cl in net.clusters:
        if cl.kind == "obs" and cl.station == st:
            cl.cov = None
            cl.obs = [o for o in cl.obs if o.kind in ("direction", "distance")]
            keep.append(cl)
    net.clusters = keep
    seen = {o.to for c in keep for o in c.obs if o.kind == "distance"}
    for pid, q in list(net.points.items()):
        if q.xy in ("free", "constrained") and pid not in seen:
            q.xy = "fixed"
        if q.xy == "constrained":
            q.xy = "free"
    # extra redundancy 0..3: a few distances from the second fixed point
    extra = int(net.params.get("_extra", rng.integers(0, 4)))
    cl = netgen.Cluster("obs", fixed[1])
    for pid in list(seen)[:extra]:
        if pid != fixed[1]:
            o = netgen.Obs("distance", fixed[1], pid, stdev=5.0)
            o.true = netgen.model_value(net, cl, o)
            o.val = o.true + float(rng.normal(0, 0.005))
            cl.obs.append(o)
    if cl.obs:
        net.clusters.append(cl)


def run(tier, seed, only=None):
    runner.build("san", targets=["gama-local"])
    ck = Check("C09", tier, seed,
               "generated noisy networks x sigma-act {apriori, aposteriori} x conf-pr in (0,1) x algorithms: every "
               "statistic of the XML result recomputed from the recorded linear system (numpy reference Q) and scipy "
               "quantiles; + scaling relation for sigma-apr x c (v'Pv x c^2, a posteriori deviation x c, everything else unchanged). class = (network kind, sigma-act, dof class, algorithm, "
               "features)")
    n = tier_n(tier, 200, 1500)
    jobs = []
    frames = {}
    for i in range(n):
        if only is not None and i != only:
            continue
        rng, net, feats = gen(seed, i)
        alg = netlevel.ALGS[i % 4]
        # every third case in a random axes/handedness convention (exercises the y-sign handling of the outputs)
        frames[i] = netgen.Frame(axes=str(rng.choice(netgen.AXES_ALL)), angles=str(rng.choice(["left-handed", "right-handed"]))) \
            if i % 3 == 1 else netgen.Frame()
        jobs.append((i, "base", 1.0, net, feats, alg))
        if i % 3 == 0:
            c = float(rng.choice([0.1, 3.0, 100.0]))
            v = net.clone()
            v.params["sigma_apr"] = net.params["sigma_apr"] * c
            jobs.append((i, "scaled", c, v, feats, alg))

    def work(job):
        i, name, c, net, feats, alg = job
        txt = netgen.to_gkf(net, frames[i])
        return job, xmlout.run_gama_local(txt, ck.tmp, "c%d-%s" % (i, name), args=["--algorithm", alg], trace=True), txt

    res = runner.pmap(work, jobs)
    base = {}
    for (i, name, c, net, feats, alg), g, txt in res:
        wit = dict(seed=seed, index=i, variant=name, alg=alg, kind=net.kind, features=feats, input=txt if len(ck.violations) < 3 else None)
        if ck.sanitizer(g.rr, wit, prefix="gama-local:"):
            continue
        if g.rr.timeout:
            ck.inconc("timeout"); continue
        if netlevel.outcome(g) != "adjusted":
            ck.inconc("not adjusted: " + netlevel.outcome(g)); continue
        out = check_result(ck, net, g, wit)
        if out is None:
            continue
        R, ev, m0 = out
        ck.case((net.kind, net.params["sigma_act"], "dof0" if R["dof"] == 0 else "dof<=3" if R["dof"] <= 3 else "dof>3",
                 alg, "+".join(sorted(feats)) or "plain", "y-flipped" if ev["y_sign"] < 0 else "y-as-is"))
        if name == "base":
            base[i] = (net, g, R)
            if i < 2:
                ck.sample(dict(index=i, kind=net.kind, features=feats, sigma_act=net.params["sigma_act"],
                               conf_pr=net.params["conf_pr"], dof=R["dof"]))
        else:
            if i not in base:
                continue
            net0, g0, R0 = base[i]
            A = netlevel.physical_result(R0, frames[i])
            B = netlevel.physical_result(R, frames[i])
            rel = []
            if {k: len(v) for k, v in A["obs"].items()} != {k: len(v) for k, v in B["obs"].items()}:
                # the relation presumes the same observations: gama's gross-absolute-term test works on the
                # homogenised right-hand side (term x sigma-apr / stdev; C14 known finding), so a larger sigma-apr
                # makes it exclude good angular observations -- C14 reports that, nothing to relate here
                ck.count("scaled run adjusted another set of observations (gross-term test depends on sigma-apr: C14 finding)")
                continue
            # weights are p = (sigma_apr / sigma_i)^2: v'Pv scales by c^2, the a posteriori deviation by c, their
            # ratio to sigma_apr, the covariances and all standard deviations stay as they are
            if abs(R["sum_of_squares"] / (c * c) - R0["sum_of_squares"]) > 3e-7 * R0["sum_of_squares"] + 1e-12:
                rel.append(("scaling:sum-of-squares", "v'Pv %.9g / c^2 (c=%g) != %.9g" % (R["sum_of_squares"], c, R0["sum_of_squares"])))
            if R0["dof"] > 0 and abs(R["ratio"] - R0["ratio"]) > 1.1e-3:
                rel.append(("scaling:ratio", "ratio %.3f (c=%g) != %.3f" % (R["ratio"], c, R0["ratio"])))
            if abs(R["aposteriori"] / c - R0["aposteriori"]) > 3e-7 * R0["aposteriori"] + 1e-12:
                rel.append(("scaling:aposteriori", "aposteriori %.9g / c != %.9g" % (R["aposteriori"], R0["aposteriori"])))
            for k, msg, _ in netlevel.compare_physical(A, B, what=("cov", "ellipses")):
                rel.append(("scaling:" + k, msg))
            # coordinates and residuals unchanged
            for k, msg, _ in netlevel.compare_physical(A, B, what=("points",)):
                rel.append(("scaling:" + k, msg))
            ra = {k: [t[0] for t in v] for k, v in A["obs"].items()}
            rb = {k: [t[0] for t in v] for k, v in B["obs"].items()}
            for k in ra:
                if k in rb and any(abs(x - y) > 1e-3 + 1e-6 * abs(x) for x, y in zip(ra[k], rb[k])):
                    rel.append(("scaling:residual", "%s residuals %s vs %s" % (k, ra[k][:2], rb[k][:2])))
                    break
            # standard deviations of adjusted observations: unchanged for both kinds of reference deviation
            fac = 1.0
            for k in A["obs"]:
                if k in B["obs"]:
                    for (r1, s1, q1, f1), (r2, s2, q2, f2) in zip(A["obs"][k], B["obs"][k]):
                        if abs(s2 - fac * s1) > 1e-6 * max(s2, fac * s1) + 1e-9:
                            rel.append(("scaling:stdev:%s" % net.params["sigma_act"], "%s stdev %.9g vs %g x %.9g" % (k, s2, fac, s1)))
                            break
            seen = set()
            for k, msg in rel:
                if k not in seen:
                    seen.add(k)
                    ck.violation(k, msg + " [%s, c=%g, case %d]" % (net.kind, c, i), wit)
            ck.cls(("scaling", net.params["sigma_act"], "c=%g" % c))
    ck.assumptions += ["scipy quantiles with C17's tolerances", "numpy reference Q = T N+ T' on the recorded system",
                       "standard deviation / qrr / f of observations in correlated clusters are not judged here (C07 known finding)"]
    ck.minimum = dict(evaluations=tier_n(tier, 50, 1200), distinct=20)
    return ck.finish()


def replay(path):
    w = json.load(open(path))
    return run(w["tier"], w["witness"]["seed"], only=w["witness"]["index"])
