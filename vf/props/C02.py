"""C02 — the four algorithms give the same adjustment.
Relational monitor over recorded runs: the same input is solved by envelope, cholesky, gso and svd
(a) through the general class Adj (solver level: defect, x, v, sum of squares, all q_xx, all q_bb) and
(b) through the real gama-local binary on generated networks (netlevel.algorithms_agree)."""
import json
import numpy as np

from .. import runner, lsq, solver
from ..runner import Check, tier_n

CMDS = ["X", "R", "SS", "DEF", "QXXALL", "QBBALL"]
NAMES = ["x", "v", "sum-of-squares", "defect", "q_xx", "q_bb"]


def cases(seed, n, tier):
    for i in range(n):
        rng = np.random.default_rng([seed, i, 202])
        force = {}
        if i % 3 == 1:
            force["defect"] = int(rng.integers(1, 5))
        yield i, lsq.gen_problem(rng, force=force)


def solver_level(ck, tier, seed, only=None):
    n = tier_n(tier, 120, 1500)
    items, info = [], []
    for i, P in cases(seed, n, tier):
        if only is not None and i != only:
            continue
        ref = lsq.Reference(P)
        if not ref.ok or not ref.subset_ok:
            ck.inconc("not admitted (rank ambiguous / scale)")
            continue
        for alg in lsq.ALGS:
            items.append((P, ["NEW adj %s" % alg] + CMDS))
        info.append((i, P, ref))
    # regularisation subsets that cannot resolve the defect: an unknown with an exactly zero column is left out of the
    # subset, so one null vector has no component in it -- every algorithm must refuse (the same exception), none may
    # return numbers (the norm of the restricted null vector is rounding noise, not an exact zero)
    for j in range(tier_n(tier, 16, 150)):
        if only is not None:
            break
        rng = np.random.default_rng([seed, j, 20202])
        P = lsq.gen_problem(rng, force=dict(defect=int(rng.integers(1, 4)), zero_col=True, subset="all"))
        zc = [c for c in range(P["A"].shape[1]) if not np.any(P["A"][:, c])]
        ref = lsq.Reference(P)
        if not zc or not ref.ok:
            ck.inconc("not admitted (rank ambiguous / scale)")
            continue
        P["minx"] = [c + 1 for c in range(P["A"].shape[1]) if c != zc[0]]
        P["meta"]["subset"] = "unresolving"
        ref.set_subset(P["minx"])
        if ref.subset_sv > 1e-20:
            continue
        for alg in lsq.ALGS:
            items.append((P, ["NEW adj %s" % alg] + CMDS))
        info.append((1000000 + j, P, ref))
    res = solver.run_scripts(items, batch=8)
    for k, (i, P, ref) in enumerate(info):
        meta = P["meta"]
        rs = res[4 * k:4 * k + 4]
        wit = dict(seed=seed, index=i, meta=meta, level="solver")
        dead = False
        for alg, r in zip(lsq.ALGS, rs):
            if r["crash"] is not None:
                dead = True
                rr = r["crash"]
                if not ck.sanitizer(rr, dict(wit, alg=alg), prefix="adj:%s:" % alg):
                    if rr.timeout:
                        ck.inconc("timeout")
                    else:
                        ck.violation("adj:%s:driver-died" % alg, "rc=%s at %s" % (rr.rc, r["crash_cmd"]), wit)
        if dead:
            continue
        sing = "singular" if ref.defect else "regular"
        # status must agree: OK for all or the same exception class for all
        for c, (cmd, name) in enumerate(zip(CMDS, NAMES)):
            reps = [r["replies"][1 + c] for r in rs]
            kinds = [rp[0] + (":" + rp[1].split()[0] if rp[0] == "EXC" else "") for rp in reps]
            if len(set(kinds)) != 1:
                ck.violation("solver:status:%s:%s" % (name, sing),
                             "algorithms disagree on whether %s exists: %s" % (name, dict(zip(lsq.ALGS, kinds))), wit)
                continue
            if meta.get("subset") == "unresolving" and name in ("x", "v", "sum-of-squares") and reps[0][0] == "OK":
                ck.violation("solver:unresolving-subset-accepted:%s" % name,
                             "all algorithms returned %s although the regularisation subset leaves a null vector untouched" % name, wit)
            if reps[0][0] != "OK":
                continue
            if meta.get("subset") == "unresolving":
                continue
            vals = [np.array(rp[1][1:] if cmd in ("X", "R", "QXXALL", "QBBALL") else rp[1]) for rp in reps]
            scale = max(float(np.max(np.abs(v))) if len(v) else 0.0 for v in vals)
            if name == "q_xx":
                scale = max(scale, float(np.max(np.abs(ref.Q))))
            elif name == "v":       # residuals of an exactly solvable system are rounding noise: scale by |A||x|+|b|
                scale = max(scale, float(np.max(np.abs(ref.A) @ np.abs(ref.x) + np.abs(ref.b))))
            elif name == "sum-of-squares":
                scale = max(scale, float(ref.bw @ ref.bw))
            elif name == "x":
                scale = max(scale, float(np.max(np.abs(ref.xp))) if ref.n else 0.0)
            elif name == "q_bb":
                scale = max(scale, float(np.max(np.abs(ref.Qbb))))
            tol = ref.tol(max(scale, 1e-12)) * 10
            if name == "defect":
                tol = 0.0
            for a in range(4):
                for b in range(a + 1, 4):
                    if vals[a].shape != vals[b].shape:
                        ck.violation("solver:shape:%s" % name, "different sizes", wit)
                        continue
                    e = float(np.max(np.abs(vals[a] - vals[b]))) if len(vals[a]) else 0.0
                    if name != "defect":
                        ck.ratio("pairwise " + name, e, tol)
                    if e > tol:
                        ck.violation("solver:%s:%s-vs-%s:%s:%s" % (name, lsq.ALGS[a], lsq.ALGS[b], sing, meta.get("subset")),
                                     "%s differs between %s and %s by %.3g (scale %.3g, kappa %.3g) [case %d m=%d n=%d "
                                     "defect=%d cov=%s]" % (name, lsq.ALGS[a], lsq.ALGS[b], e, scale, ref.kappa, i,
                                                            ref.m, ref.n, ref.defect, meta["cov"]), wit)
        ck.case(("solver", sing, meta["cov"], meta.get("subset"), meta["pattern"]))
        if i < 2:
            ck.sample(dict(level="solver", index=i, meta=meta))


def run(tier, seed, only=None):
    runner.build("san", targets=["adjdrv", "gama-local"])
    ck = Check("C02", tier, seed,
               "same input solved with envelope/cholesky/gso/svd; solver level: random adjustment problems as in C01 "
               "through Adj (defect, x, v, sum of squares, full q_xx and q_bb compared pairwise); network level: "
               "generated gama-local networks run with --algorithm x4, result documents compared field by field; "
               "class = (level, singular?, covariance kind, subset kind, pattern / network kind)")
    solver_level(ck, tier, seed, only)
    try:
        from .. import netlevel
    except ImportError:
        netlevel = None
    if netlevel is not None and hasattr(netlevel, 'algorithms_agree') and only is None:
        netlevel.algorithms_agree(ck, tier, seed)
    ck.assumptions += ["tolerance (1e-9 + 100 eps kappa^2) x scale x 10 with kappa from the numpy SVD of the whitened design matrix"]
    ck.minimum = dict(evaluations=tier_n(tier, 80, 2000), distinct=15)
    return ck.finish()


def replay(path):
    w = json.load(open(path))
    wit = w["witness"]
    return run(w["tier"], wit["seed"], only=wit.get("index"))
