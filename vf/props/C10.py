"""C10 — correlated observations are weighted by their full covariance matrix.
(a) relational: diagonal <cov-mat> == per-observation stdev; (b) reference model: the covariance blocks of the
system gama actually adjusted (trace hook) equal the sub-matrix of the written matrix for the observations
that stayed in, and the solution is the weighted LS solution for them (numpy); (c) solver level: a cluster
equals its whitened reformulation; (d) malformed matrices are rejected with a diagnostic by every algorithm."""
import json
import math
import numpy as np

from .. import runner, netgen, xmlout, netlevel, lsq, solver
from ..runner import Check, tier_n


# ---------------------------------------------------------------- (a) + (b)

def gen_corr(seed, i):
    rng = np.random.default_rng([seed, i, 1010])
    dim = int(rng.choice([1, 2, 3, 3]))
    feats = ["cov"]
    if dim == 3:
        feats += [f for f, p in (("vectors", 0.6), ("hdiff", 0.5)) if rng.uniform() < p]
    if dim >= 2 and rng.uniform() < 0.5:
        feats.append("coords")
    net = netgen.gen_net(rng, dim=dim, noise=True, features=tuple(feats))
    # every obs / hdiff cluster gets a covariance matrix with a random band 0..dim-1
    # a levelling cluster is split in two so that a cluster with a matrix is followed by one given by standard
    # deviations only (what the parser buffered for the first must not leak into the second)
    out = []
    for cl in net.clusters:
        out.append(cl)
        if cl.kind == "hdiff" and len(cl.obs) >= 5 and rng.uniform() < 0.7:
            k = int(rng.integers(2, len(cl.obs) - 1))
            tail = netgen.Cluster("hdiff")
            tail.obs, cl.obs = cl.obs[k:], cl.obs[:k]
            cl.cov = None                   # (a new matrix is drawn below)
            tail.tag_stdev_only = True
            out.append(tail)
    net.clusters = out
    # (almost) every obs / hdiff cluster gets a covariance matrix with a random band 0..dim-1
    for cl in net.clusters:
        if cl.kind in ("obs", "hdiff") and len(cl.obs) >= 2 and not getattr(cl, "tag_stdev_only", False) \
                and rng.uniform() < 0.85:
            sd = np.array([o.stdev for o in cl.obs])
            band = int(rng.integers(0, len(sd)))
            cl.cov = dict(band=band, C=netgen.rand_cov(rng, sd, band))
            if cl.kind == "hdiff":
                for o in cl.obs:          # documented attribute of <dh>; without effect next to a <cov-mat>
                    o.dist = round(float(rng.uniform(0.3, 2.0)), 3)
    net.params["tol_abs"] = 1000.0
    return rng, net, feats


def plant_blunders(rng, net):
    """gross errors well beyond tol-abs in some observations of correlated clusters; returns the set of
    (cluster index, obs index) expected to be excluded"""
    out = set()
    for ci, cl in enumerate(net.clusters):
        if cl.kind in ("obs", "hdiff") and cl.cov is not None and len(cl.obs) >= 3 and rng.uniform() < 0.6:
            cand = [k for k, o in enumerate(cl.obs) if o.kind in ("distance", "s-distance", "dh")]
            rng.shuffle(cand)
            for k in cand[:int(rng.integers(1, 3))]:
                d = float(rng.choice([-1, 1])) * float(rng.uniform(5.0, 50.0))
                if cl.obs[k].kind != "dh" and cl.obs[k].val + d <= 1.0:
                    d = abs(d)          # a distance must stay positive to be a valid input
                cl.obs[k].val += d
                out.add((ci, k))
    return out


def expected_blocks(net, excluded):
    """list of (dense covariance of the remaining observations) per cluster in input order (clusters with no
    remaining observation are skipped, as gama does)"""
    res = []
    for ci, cl in enumerate(net.clusters):
        if cl.kind in ("obs", "hdiff"):
            keep = [k for k in range(len(cl.obs)) if (ci, k) not in excluded]
            if not keep:
                continue
            if cl.cov is not None:
                C = np.array(cl.cov["C"])[np.ix_(keep, keep)]
            else:
                C = np.diag([cl.obs[k].stdev ** 2 for k in keep])
            res.append(C)
        elif cl.kind in ("vectors", "coords"):
            res.append(None)     # expressed in the file frame: compared through eigenvalues only
    return res


def block_dense(bl):
    dim, w = bl["dim"], bl["band"]
    C = np.zeros((dim, dim))
    k = 0
    for i in range(dim):
        for j in range(i, min(dim, i + w + 1)):
            C[i, j] = C[j, i] = bl["cov"][k]
            k += 1
    return C


def netlevel_consistent(fr):
    """axes-xy and angle handedness agree (gama adjusts such input without mirroring y)"""
    left = fr.axes in netgen.AXES_LEFT
    return left == (fr.angles == "left-handed")


def network_part(ck, tier, seed):
    n = tier_n(tier, 120, 1200)
    fr = netgen.Frame()
    jobs = []
    for i in range(n):
        rng, net, feats = gen_corr(seed, i)
        alg = netlevel.ALGS[i % 4]
        excl = plant_blunders(rng, net) if i % 2 == 0 else set()
        jobs.append((i, "cov", net, feats, alg, excl))
        if i % 4 == 1:
            # (a): all matrices diagonal vs the same stdevs per observation
            d = net.clone()
            for cl in d.clusters:
                if cl.kind in ("obs", "hdiff") and cl.cov is not None:
                    C = np.diag(np.diag(np.array(cl.cov["C"])))
                    cl.cov = dict(band=0, C=C)
            s = d.clone()
            for cl in s.clusters:
                if cl.kind in ("obs", "hdiff") and cl.cov is not None:
                    sd = np.sqrt(np.diag(np.array(cl.cov["C"])))
                    for o, v in zip(cl.obs, sd):
                        o.stdev = float(v)
                    cl.cov = None
            jobs.append((i, "diag-matrix", d, feats, alg, set()))
            jobs.append((i, "per-obs-stdev", s, feats, alg, set()))
        if i % 4 in (2, 3) and net.dim >= 2 and not excl:
            # (d): the same correlated survey described in an inconsistent axes/handedness convention (gama mirrors y
            # internally and has to mirror the covariance matrices with it: S C S)
            jobs.append((i, "mirror-base", net, feats, alg, set()))
            jobs.append((i, "mirror", net, feats, alg, set()))

    def mirror_frame(i):
        r = np.random.default_rng([seed, i, 101010])
        axes = str(r.choice(netgen.AXES_ALL))
        for hand in r.permutation(["left-handed", "right-handed"]):
            f2 = netgen.Frame(axes=axes, angles=str(hand))
            if not netlevel_consistent(f2):
                return f2
        return netgen.Frame(axes="ne", angles="right-handed")

    def work(job):
        i, name, net, feats, alg, excl = job
        txt = netgen.to_gkf(net, mirror_frame(i) if name == "mirror" else fr)
        return job, xmlout.run_gama_local(txt, ck.tmp, "n%d-%s" % (i, name), args=["--algorithm", alg], trace=True), txt

    res = runner.pmap(work, jobs)
    pairs = {}
    mirrors = {}
    for (i, name, net, feats, alg, excl), g, txt in res:
        wit = dict(seed=seed, index=i, variant=name, alg=alg, kind=net.kind, features=feats,
                   input=txt if len(ck.violations) < 3 else None)
        if ck.sanitizer(g.rr, wit, prefix="gama-local:"):
            continue
        if g.rr.timeout:
            ck.inconc("timeout"); continue
        if netlevel.outcome(g) != "adjusted":
            ck.violation("valid-covariance-refused:%s" % netlevel.outcome(g).split(":")[-1],
                         "network with positive definite covariance matrices not adjusted: %s %s" % (
                             netlevel.outcome(g), (g.xml or {}).get("descriptions")), wit)
            continue
        if name in ("diag-matrix", "per-obs-stdev"):
            pairs.setdefault(i, {})[name] = (g, net)
            continue
        if name in ("mirror-base", "mirror"):
            mirrors.setdefault(i, {})[name] = (g, net)
            continue
        evs = netlevel.adjust_events(g)
        if not evs:
            ck.inconc("no event"); continue
        ev = evs[-1]
        # which observations did gama exclude?  ground truth from the hooks
        # ground truth of what was excluded: the hook events (row index among the observations active at that
        # time = all of them, nothing else is excluded in these networks).  gama may exclude more than the planted
        # blunders (known finding of C14: angular terms are tested on the homogenised right-hand side, which mixes
        # the observations of a correlated cluster); the sub-matrix rule is checked for whatever was excluded.
        removed = [e for e in g.trace if e.get("kind") == "rm_obs_abs_term"]
        if any(e.get("kind") == "rm_point" for e in g.trace):
            # excluding the planted blunders left part of the network undetermined (e.g. a levelling line cut twice)
            # and gama removed points, hence further observations: which rows remain is C14's subject, not judged here
            ck.inconc("planted blunders cut the network: points removed")
            continue
        rows = []
        for ci, cl in enumerate(net.clusters):
            if cl.kind in ("obs", "hdiff"):
                rows += [(ci, k) for k in range(len(cl.obs))]
            elif cl.kind == "vectors":
                rows += [(ci, None)] * (3 * len(cl.vecs))
            elif cl.kind == "coords":
                rows += [(ci, None)] * sum((2 if c[1] is not None else 0) + (1 if c[3] is not None else 0) for c in cl.cpoints)
        actual = set()
        okmap = True
        for e in removed:
            r = e["index"] - 1
            if r >= len(rows) or rows[r][1] is None:
                okmap = False
                break
            actual.add(rows[r])
        if not okmap or not excl <= actual:
            ck.inconc("excluded rows could not be mapped / planted blunder kept")
            continue
        if len(actual) > len(excl):
            ck.count("collateral exclusions in correlated clusters (C14 known finding)", len(actual) - len(excl))
        excl = actual
        exp = expected_blocks(net, excl)
        if len(exp) != len(ev["blocks"]):
            ck.violation("blocks:count", "%d clusters with observations expected, %d covariance blocks adjusted" % (
                len(exp), len(ev["blocks"])), wit)
            continue
        for bi, (C, bl) in enumerate(zip(exp, ev["blocks"])):
            got = block_dense(bl)
            if C is None:
                continue
            if C.shape != got.shape:
                ck.violation("blocks:dimension", "cluster %d: %d observations remain, block has %d" % (bi, C.shape[0], got.shape[0]), wit)
                break
            e = float(np.max(np.abs(C - got)))
            sc = float(np.max(np.abs(C)))
            ck.ratio("sub-matrix", e, 1e-12 * sc + 1e-300)
            if e > 1e-12 * sc:
                i0, j0 = np.unravel_index(np.argmax(np.abs(C - got)), C.shape)
                ck.violation("blocks:sub-matrix:%s" % ("after-exclusion" if excl else "all-active"),
                             "cluster %d: weight inverse used by gama differs from the sub-matrix of the written "
                             "covariance at (%d,%d): %.9g vs %.9g" % (bi, i0 + 1, j0 + 1, got[i0, j0], C[i0, j0]), wit)
                break
        for evx in evs:
            bad, ref = netlevel.check_adjust_event(ck, evx, tag="corr")
            for key, msg in bad:
                ck.violation(key, msg + " [%s, case %d]" % (net.kind, i), wit)
        bands = sorted({bl["band"] for bl in ev["blocks"]})
        ck.case(("network", net.kind, alg, "excluded" if excl else "all-active",
                 "bands:" + ",".join(str(b if b < 3 else "3+") for b in bands)))
        if i < 2:
            ck.sample(dict(index=i, kind=net.kind, features=feats, excluded=sorted(excl), bands=[bl["band"] for bl in ev["blocks"]]))
    for i, d in pairs.items():
        if len(d) != 2:
            continue
        (g1, n1), (g2, n2) = d["diag-matrix"], d["per-obs-stdev"]
        A = netlevel.physical_result(g1.xml, fr)
        B = netlevel.physical_result(g2.xml, fr)
        for key, msg, _ in netlevel.compare_physical(A, B)[:3]:
            ck.violation("diagonal-matrix-vs-stdev:%s" % key, msg + " [%s, case %d]" % (n1.kind, i),
                         dict(seed=seed, index=i, kind=n1.kind))
        ck.case(("diag-vs-stdev", n1.kind))
    for i, d in mirrors.items():
        if len(d) != 2:
            continue
        (g1, n1), (g2, n2) = d["mirror-base"], d["mirror"]
        f2 = mirror_frame(i)
        A = netlevel.physical_result(g1.xml, fr)
        B = netlevel.physical_result(g2.xml, f2)
        same = g1.xml.get("iterations") == g2.xml.get("iterations")
        bad = netlevel.compare_physical(A, B, what=("points", "obs", "stats")) if same else \
            netlevel.compare_physical(A, B, what=("points", "obs", "stats"), tol_m=1e-6,
                                      rel=netlevel.rel_between_linearisation_points(n1), res_tol=1e-2)
        corr = netlevel.correlated_obs_keys(n1)
        for key, msg, okey in bad[:3]:
            if okey is not None and okey in corr and key.split(":")[1] in ("stdev", "qrr", "f"):
                continue        # C07 known finding (statistics of correlated observations)
            ck.violation("mirrored-frame:%s" % key, msg + " [%s vs ne/left-handed, %s, case %d]" % (
                f2.axes + "/" + f2.angles, n1.kind, i), dict(seed=seed, index=i, kind=n1.kind, frame=[f2.axes, f2.angles]))
        ck.case(("mirrored-frame", n1.kind, "vectors" if any(c.kind == "vectors" for c in n1.clusters) else "-",
                 "coords" if any(c.kind == "coords" for c in n1.clusters) else "-"))


# ---------------------------------------------------------------- (c) whitened reformulation, solver level

def whitening_part(ck, tier, seed):
    n = tier_n(tier, 180, 2000)
    items, info = [], []
    for i in range(n):
        rng = np.random.default_rng([seed, i, 1011])
        P = lsq.gen_problem(rng, force=dict(cov=str(rng.choice(["banded", "full", "mixed"]))))
        ref = lsq.Reference(P)
        if not ref.ok or not ref.subset_ok:
            ck.inconc("not admitted"); continue
        Pw = dict(A=ref.Aw.copy(), b=ref.bw.copy(), blocks=[(ref.m, 0, np.eye(ref.m))], minx=P["minx"], meta=P["meta"])
        for alg in lsq.ALGS:
            items.append((P, ["NEW adj %s" % alg, "X", "SS", "DEF"]))
            items.append((Pw, ["NEW adj %s" % alg, "X", "SS", "DEF"]))
            info.append((i, P, ref, alg))
    res = solver.run_scripts(items, batch=16)
    for k, (i, P, ref, alg) in enumerate(info):
        r1, r2 = res[2 * k], res[2 * k + 1]
        wit = dict(seed=seed, index=i, alg=alg, meta=P["meta"], level="solver")
        dead = False
        for r in (r1, r2):
            if r["crash"] is not None:
                dead = True
                if not ck.sanitizer(r["crash"], wit, prefix="adj:%s:" % alg):
                    ck.inconc("driver died")
        if dead:
            continue
        a, b = r1["replies"], r2["replies"]
        if any(x[0] != "OK" for x in a[1:] + b[1:]):
            ck.violation("whitened:status:%s" % alg, "replies %s vs %s" % ([x[0] for x in a], [x[0] for x in b]), wit)
            continue
        x1, x2 = solver.vec(a[1]), solver.vec(b[1])
        sc = max(float(np.max(np.abs(ref.xp))), 1e-12)
        e = float(np.max(np.abs(x1 - x2))) if len(x1) else 0.0
        if ck.ratio("whitened x", e, ref.tol(sc) * 10) > 1:
            ck.violation("whitened:x:%s" % alg, "unknowns of (A,b,C) and of (L^-1 A, L^-1 b, I) differ by %.3g" % e, wit)
        s1, s2 = solver.scalar(a[2]), solver.scalar(b[2])
        if ck.ratio("whitened ss", abs(s1 - s2), ref.tol(max(float(ref.bw @ ref.bw), 1e-12)) * 10) > 1:
            ck.violation("whitened:sum-of-squares:%s" % alg, "%.12g vs %.12g" % (s1, s2), wit)
        if solver.scalar(a[3]) != solver.scalar(b[3]):
            ck.violation("whitened:defect:%s" % alg, "%s vs %s" % (a[3], b[3]), wit)
        ck.case(("whitened", alg, P["meta"]["cov"], "singular" if ref.defect else "regular"))


# ---------------------------------------------------------------- (d) malformed matrices are rejected

def malformed_variants(rng, net):
    """yield (name, net') — each variant has exactly one malformed covariance matrix"""
    cands = [ci for ci, cl in enumerate(net.clusters) if cl.cov is not None]
    for ci in cands:
        cl = net.clusters[ci]
        n = np.array(cl.cov["C"]).shape[0]
        kind = cl.kind
        def mk(mod):
            v = net.clone()
            mod(v.clusters[ci])
            return v
        def indefinite(c):
            C = np.array(c.cov["C"]).copy()
            if n >= 2:
                C[0, 1] = C[1, 0] = 3.0 * math.sqrt(C[0, 0] * C[1, 1])
                c.cov = dict(band=max(c.cov["band"], 1), C=C)
            else:
                C[0, 0] = -abs(C[0, 0]); c.cov = dict(band=0, C=C)
        def zero_var(c):
            C = np.array(c.cov["C"]).copy(); k = int(rng.integers(n)); C[k, :] = 0; C[:, k] = 0
            c.cov = dict(band=c.cov["band"], C=C)
        def neg_var(c):
            C = np.array(c.cov["C"]).copy(); k = int(rng.integers(n)); C[k, k] = -C[k, k]
            c.cov = dict(band=c.cov["band"], C=C)
        def dim_less(c):
            C = np.array(c.cov["C"])[:n - 1, :n - 1]
            c.cov = dict(band=min(c.cov["band"], max(n - 2, 0)), C=C, raw=True)
        def dim_more(c):
            C = np.zeros((n + 1, n + 1)); C[:n, :n] = np.array(c.cov["C"]); C[n, n] = C[0, 0]
            c.cov = dict(band=c.cov["band"], C=C, raw=True)
        yield "%s:indefinite" % kind, mk(indefinite)
        yield "%s:zero-variance" % kind, mk(zero_var)
        yield "%s:negative-variance" % kind, mk(neg_var)
        if n >= 2:
            yield "%s:dim-too-small" % kind, mk(dim_less)
        yield "%s:dim-too-large" % kind, mk(dim_more)


def rejection_part(ck, tier, seed):
    n = tier_n(tier, 30, 150)
    fr = netgen.Frame()
    jobs = []
    for i in range(n):
        rng, net, feats = gen_corr(seed, 100000 + i)
        vs = list(malformed_variants(rng, net))
        if tier != "thorough":
            vs = [vs[int(k)] for k in rng.choice(len(vs), min(len(vs), 8), replace=False)]
        for name, v in vs:
            txt = netgen.to_gkf(v, fr)
            algs = netlevel.ALGS if tier == "thorough" else [netlevel.ALGS[(i + len(jobs)) % 4]]
            for alg in algs:
                jobs.append((i, name, alg, txt, net.kind, len(jobs)))

    def work(job):
        i, name, alg, txt, kind, uniq = job
        return job, xmlout.run_gama_local(txt, ck.tmp, "r%d-%d-%s-%s" % (i, uniq, name.replace(":", "_"), alg),
                                          args=["--algorithm", alg], outputs=("xml", "text"))

    for (i, name, alg, txt, kind, uniq), g in runner.pmap(work, jobs):
        wit = dict(seed=seed, index=i, variant=name, alg=alg, kind=kind, input=txt if len(ck.violations) < 4 else None)
        if ck.sanitizer(g.rr, wit, prefix="malformed:%s:" % name):
            continue
        if g.rr.timeout:
            ck.inconc("timeout"); continue
        oc = netlevel.outcome(g)
        ck.case(("malformed", name, alg))
        if oc == "adjusted":
            ck.violation("malformed-accepted:%s" % name, "a cluster with a malformed covariance matrix (%s) was adjusted "
                         "(%s, sum of squares %s)" % (name, alg, g.xml.get("sum_of_squares")), wit)
        elif not oc.startswith("error:"):
            ck.violation("malformed-no-diagnostic:%s:%s" % (name, oc.split(":")[0]), "outcome %s, stderr %s" % (oc, g.err[-200:]), wit)
        else:
            ck.count("rejected with " + oc)


def run(tier, seed, only=None):
    runner.build("san", targets=["gama-local", "adjdrv"])
    ck = Check("C10", tier, seed,
               "(a) diagonal cov-mat vs per-observation stdev; (b) generated networks whose obs / height-difference / "
               "vector / coordinate clusters carry covariance matrices of every band width, with blunders planted so "
               "that gama excludes observations from correlated clusters: the covariance blocks recorded by the trace "
               "hook must equal the sub-matrix, and the solution the weighted LS solution (numpy); (c) (A,b,C) vs "
               "whitened (L^-1A, L^-1b, I) through Adj x 4 algorithms; (d) malformed matrices (indefinite, zero / "
               "negative variance, dim too small / large) for every cluster kind x algorithm must be refused with a "
               "diagnostic. class = (part, network kind / cluster kind, algorithm, excluded?, bands)")
    network_part(ck, tier, seed)
    whitening_part(ck, tier, seed)
    rejection_part(ck, tier, seed)
    ck.assumptions += ["numpy Cholesky/SVD reference", "blunders of 5-50 m against tol-abs 1000 mm are excluded by gama (verified "
                       "through the rm_obs_abs_term hook; otherwise the case is inconclusive)"]
    ck.minimum = dict(evaluations=tier_n(tier, 150, 4000), distinct=30)
    return ck.finish()


def replay(path):
    w = json.load(open(path))
    return run(w["tier"], w["witness"]["seed"])
