"""C17 — statistical critical values invert their distributions.
Reference-model monitor: gama's statan functions (run in the sanitized libdrv) vs scipy."""
import math
import numpy as np
from scipy import stats

from .. import runner
from ..runner import Check, tier_n

TOL = dict(N=1e-6, S=5e-4, C=5e-3)


def _ask(lines):
    exe = runner.binpath("san", "libdrv")
    rr = runner.run([exe], stdin="\n".join(lines) + "\n", timeout=600)
    return rr


def run(tier, seed):
    runner.build("san", targets=["libdrv"])
    ck = Check("C17", tier, seed,
               "grid of (function, alpha, dof); class = (function, dof bucket, alpha decade); "
               "non-trivial = value compared against scipy quantile or a shape relation evaluated")
    rng = np.random.default_rng(seed)
    step = tier_n(tier, 0.0005, 0.00005)
    n = int(round((0.9995 - 0.0005) / step)) + 1
    alphas = [round(0.0005 + i * step, 7) for i in range(n)]
    # seed-dependent jitter points inside the interval
    alphas += list(np.round(rng.uniform(0.0005, 0.9995, tier_n(tier, 500, 5000)), 9))
    dofs = list(range(1, 101)) + [120, 150, 200, 300, 500, 1000, 10000, 100000]
    if tier == "quick":
        # all dofs on a coarser alpha grid + all alphas on a dof subset
        dof_full = [1, 2, 3, 4, 5, 7, 10, 20, 30, 31, 50, 100, 1000, 100000] + \
            [int(x) for x in rng.integers(1, 1000, 4)]
        a_coarse = alphas[::20]
    else:
        dof_full = dofs + [int(x) for x in rng.integers(1, 100000, 20)]
        a_coarse = alphas
    req = []   # (fn, alpha, dof)
    for a in alphas:
        req.append(("N", a, 0))
    for d in dofs:
        al = alphas if d in dof_full else a_coarse
        for a in al:
            req.append(("S", a, d))
            req.append(("C", a, d))
    for d in dof_full:
        if d not in dofs:
            for a in alphas:
                req.append(("S", a, d))
                req.append(("C", a, d))
    lines = ["%s %.17g %d" % (f, a, d) if f != "N" else "N %.17g" % a for f, a, d in req]
    rr = _ask(lines)
    if ck.sanitizer(rr, dict(stage="accuracy grid")):
        return ck.finish()
    if rr.timeout or rr.rc != 0:
        raise runner.HarnessError("libdrv failed rc=%s %s" % (rr.rc, rr.err[-500:]))
    vals = np.array([float(x) for x in rr.out.split()])
    if len(vals) != len(req):
        raise runner.HarnessError("libdrv reply count mismatch")
    fn = np.array([r[0] for r in req])
    al = np.array([r[1] for r in req])
    df = np.array([r[2] for r in req])
    ref = np.empty(len(req))
    mN, mS, mC = fn == "N", fn == "S", fn == "C"
    ref[mN] = stats.norm.isf(al[mN])
    ref[mS] = stats.t.isf(al[mS], df[mS])
    ref[mC] = stats.chi2.isf(al[mC], df[mC])
    for name, m in (("N", mN), ("S", mS), ("C", mC)):
        v, r = vals[m], ref[m]
        bad_fin = ~np.isfinite(v)
        denom = np.maximum(np.abs(r), 1e-12)
        # at the exact median of a symmetric distribution the quantile is 0: absolute comparison
        err = np.where(np.abs(r) < 1e-300, np.abs(v), np.abs(v - r) / denom)
        worst = int(np.nanargmax(np.where(bad_fin, np.inf, err)))
        ck.ratio("relerr_" + name, float(err[worst]) if not bad_fin[worst] else float("inf"), TOL[name])
        ck.counters["worst_" + name] = dict(alpha=float(al[m][worst]), dof=int(df[m][worst]),
                                            gama=float(v[worst]), ref=float(r[worst]), relerr=float(err[worst]))
        idx = np.nonzero(bad_fin | (err > TOL[name]))[0]
        for i in idx[:5]:
            ck.violation("accuracy:%s" % name,
                         "%s(alpha=%.9g, dof=%d) = %.12g, true quantile %.12g, rel.err %.3g > %.1g" % (
                             name, al[m][i], df[m][i], v[i], r[i], err[i], TOL[name]),
                         dict(fn=name, alpha=float(al[m][i]), dof=int(df[m][i])))
        # classes
        dd = df[m]
        bucket = np.where(dd == 0, 0, np.where(dd <= 2, dd, np.where(dd <= 30, 3, np.where(dd <= 100, 4, 5))))
        dec = np.floor(np.log10(np.minimum(al[m], 1 - al[m]))).astype(int)
        for b, d in set(zip(bucket.tolist(), dec.tolist())):
            ck.cls((name, "dofbucket%d" % b, "tail1e%d" % d))
    ck.case(None, len(req))
    ck.sample(dict(fn="S", alpha=req[len(alphas) + 2][1], dof=req[len(alphas) + 2][2],
                   gama=float(vals[len(alphas) + 2]), scipy=float(ref[len(alphas) + 2])))

    # ---- shape: monotone, symmetric, finite on (0,1) down to 1e-12; D inverse of Normal
    sh = [10.0 ** -k for k in range(1, 13)] + [1 - 10.0 ** -k for k in range(1, 13)]
    sh += list(10 ** rng.uniform(-12, math.log10(0.5), tier_n(tier, 1000, 10000)))
    sh += list(1 - 10 ** rng.uniform(-12, math.log10(0.5), tier_n(tier, 1000, 10000)))
    sh += [0.5, 0.25, 0.75]
    # dense runs in the far tails: the step of the true quantile (~3e-5/z) is then comparable with what a
    # cancellation in an intermediate result (1 - D(z) for small alpha) does to the value
    for base in (1.2e-12, 1e-11, 1e-10, 1e-9, 1e-8):
        sh += [base * (1 + 3e-5) ** k for k in range(tier_n(tier, 60, 400))]
    sh = sorted(set(float(s) for s in sh if 0 < s < 1))
    sdofs = [1, 2, 3, 4, 5, 6, 10, 17, 30, 31, 100, 101, 1000] + [int(x) for x in rng.integers(1, 5000, tier_n(tier, 3, 30))]
    sdofs = sorted(set(sdofs))   # a repeated dof would concatenate two alpha sweeps into one series
    lines, tags = [], []
    for a in sh:
        lines.append("N %.17g" % a); tags.append(("N", a, 0))
        lines.append("N %.17g" % (1 - a)); tags.append(("N1", a, 0))
    for d in sdofs:
        for a in sh:
            lines.append("S %.17g %d" % (a, d)); tags.append(("S", a, d))
            lines.append("S %.17g %d" % (1 - a, d)); tags.append(("S1", a, d))
            lines.append("C %.17g %d" % (a, d)); tags.append(("C", a, d))
    rr = _ask(lines)
    if ck.sanitizer(rr, dict(stage="shape grid")):
        return ck.finish()
    if rr.timeout or rr.rc != 0:
        raise runner.HarnessError("libdrv failed (shape) rc=%s %s" % (rr.rc, rr.err[-500:]))
    v = [float(x) for x in rr.out.split()]
    if len(v) != len(tags):
        raise runner.HarnessError("reply count mismatch (shape)")
    series = {}
    for (f, a, d), val in zip(tags, v):
        series.setdefault((f, d), []).append((a, val))
    ck.case(None, len(tags))
    for (f, d), pts in series.items():
        fam = f[0]
        vals_ = [p[1] for p in pts]
        for a, val in pts:
            if not math.isfinite(val):
                ck.violation("finite:%s" % fam, "%s(alpha=%.17g,dof=%d) = %r not finite" % (f, a, d, val),
                             dict(fn=f, alpha=a, dof=d))
                break
        if f in ("N", "S", "C"):
            # quantile must be strictly decreasing in the tail probability alpha
            bad = {}
            for (a1, v1), (a2, v2) in zip(pts, pts[1:]):
                if not (v2 < v1):
                    # a rise within the rounding noise of the result itself (a few ulp of a quantity of order
                    # max(1,|v|): Normal(a) near a = 0.5 is a difference of numbers of order 1) is not a defect
                    if v2 - v1 <= 1e-15 * max(1.0, abs(v1)) and abs(a2 - a1) <= 1e-3 * min(a1, 1 - a2, a2, 1 - a1):
                        continue
                    zone = "far-upper-tail(alpha<1e-6)" if a2 < 1e-6 else (
                        "far-lower-tail(alpha>1-1e-6)" if a1 > 1 - 1e-6 else "core")
                    bad.setdefault(zone, []).append((a1, v1, a2, v2))
            for zone, lst in bad.items():
                a1, v1, a2, v2 = lst[0]
                ck.violation("monotone:%s:dof=%d:%s" % (fam, d, zone),
                             "%s not strictly decreasing in alpha at %d adjacent grid pairs, first: f(%.17g)=%.17g, "
                             "f(%.17g)=%.17g, dof=%d" % (f, len(lst), a1, v1, a2, v2, d),
                             dict(fn=f, a1=a1, a2=a2, dof=d, pairs=len(lst)))
            ck.cls(("shape-monotone", fam, "dof%d" % d if d in (0, 1, 2, 3) else "dof>3"))
    # symmetry
    for fam, fam1 in (("N", "N1"), ("S", "S1")):
        for (f, d), pts in series.items():
            if f != fam:
                continue
            other = dict(series[(fam1, d)])
            for a, val in pts:
                o = other[a]
                # f(1-a) must be -f(a); 1-a is rounded in double so compare with tolerance tied to slope
                tol = 1e-9 * max(1.0, abs(val)) + (abs(val) * 1e-3 if a < 1e-9 else 0)
                # argument rounding: 1-a loses relative precision for small a -> skip those where (1-(1-a)) != a
                if 1 - (1 - a) != a:
                    continue
                if abs(val + o) > tol:
                    ck.violation("symmetry:%s" % fam, "%s(%.17g)=%.17g but %s(1-a)=%.17g (dof %d)" % (
                        fam, a, val, fam, o, d), dict(fn=fam, alpha=a, dof=d))
                    break
            ck.cls(("shape-symmetry", fam))
    # NormalDistribution inverse of Normal, monotone D on [-40,40]
    lines = ["D %.17g" % val for (a, val) in series[("N", 0)]]
    xs = sorted(set([float(x) for x in np.linspace(-40, 40, tier_n(tier, 4001, 40001))] +
                    [float(x) for x in rng.uniform(-40, 40, 500)]))
    lines += ["D %.17g" % x for x in xs]
    rr = _ask(lines)
    if ck.sanitizer(rr, dict(stage="normal distribution")):
        return ck.finish()
    rows = [tuple(float(t) for t in ln.split()) for ln in rr.out.strip().split("\n")]
    nN = len(series[("N", 0)])
    worst = 0.0
    for (a, q), (D, f) in zip(series[("N", 0)], rows[:nN]):
        e = abs(D - (1 - a))
        worst = max(worst, e)
        if not (e <= 1e-9):
            ck.violation("inverse:D(Normal)", "NormalDistribution(Normal(%.17g)=%.17g) = %.17g, expected %.17g" % (
                a, q, D, 1 - a), dict(alpha=a))
            break
    ck.ratio("D_of_Normal_abs", worst, 1e-9)
    ck.cls("shape-inverse")
    prev = None
    refD = stats.norm.cdf(np.array(xs))
    worstD = 0.0
    for x, (D, f), rD in zip(xs, rows[nN:], refD):
        if not (math.isfinite(D) and 0 <= D <= 1):
            ck.violation("D:range", "NormalDistribution(%g) = %r outside [0,1]" % (x, D), dict(x=x))
            break
        if prev is not None and D < prev[1] - 1e-12:
            ck.violation("D:monotone", "D(%.17g)=%.17g < D(%.17g)=%.17g" % (x, D, prev[0], prev[1]), dict(x=x))
            break
        worstD = max(worstD, abs(D - rD))
        prev = (x, D)
    ck.ratio("D_vs_scipy_abs", worstD, 1e-7)
    if worstD > 1e-7:
        ck.violation("D:accuracy", "NormalDistribution differs from the normal cdf by %.3g" % worstD, None)
    ck.cls("shape-D-monotone")
    ck.case(None, len(lines))
    ck.assumptions += ["scipy.stats isf/cdf are the true quantiles/cdf",
                       "relative error is measured against the scipy quantile; at an exactly-zero quantile the absolute error is used"]
    ck.minimum = dict(evaluations=10000, distinct=20)
    return ck.finish()


def replay(path):
    import json
    w = json.load(open(path))["witness"]
    print("replay: ask libdrv for", w)
    return run("quick", 1)
