"""Generates /verif/MANIFEST.json from the table below (python3-vt -m vf.manifest)."""
import json
import os
import subprocess

ROOT = os.path.dirname(os.path.dirname(os.path.abspath(__file__)))

TRUST = ("gcc 12 ASan/UBSan runtimes; the drivers under /verif/harness; numpy/scipy as numerical reference; "
         "the generators' stated bounds. Decides only the executions produced (sampled universal quantifier).")

# id -> (technique, level text, design ref, note)
CHECKS = {
    "C17": ("reference-model monitor: gama statan functions run under ASan/UBSan vs scipy quantiles on dense grids; "
            "shape relations (monotone, symmetric, finite, inverse) checked over recorded values",
            "Every value gama returns on a dense (alpha, dof) grid is compared with the scipy quantile to the stated "
            "relative bounds, and monotonicity/symmetry/finiteness/inverse relations are checked on log-spaced grids "
            "down to 1e-12. Sampling of a 2-parameter continuous domain: exploration level.",
            "DESIGN.md §2 C17", TRUST),
    "C01": ("reference-model monitor: (x, v, sum of squares, defect) returned by each solver under ASan/UBSan checked "
            "against the defining equations (v=Ax-b, A'Pv=0, v'Pv, rank, minimum norm over the subset) with numpy on the original problem",
            "Random problems with exactly constructed rank deficiency, banded/full covariance blocks and "
            "regularisation subsets, 4 algorithms x 2 entry points; every answer is tested against the normal "
            "equations and the minimum-norm condition evaluated independently. Sampled inputs: exploration.",
            "DESIGN.md §2 C01", TRUST),
    "C02": ("relational monitor over recorded runs: the same input solved by the four algorithms, results compared pairwise "
            "(solver level through Adj; network level through the real gama-local binary)",
            "Pairwise equality of defect, x, v, sum of squares, all cofactors across the four algorithms with a "
            "conditioning-scaled tolerance; sampled inputs: exploration.",
            "DESIGN.md §2 C02", TRUST),
    "C03": ("reference-model monitor: full q_xx / q_bb matrices requested from each solver under ASan/UBSan, checked for "
            "symmetry, PSD, NQN=N, QNQ=Q, equality with T N+ T' and A Q A', projector identities",
            "All index pairs (both triangles, outside the envelope too) of every generated problem are compared "
            "with the numpy generalised inverse of the chosen regularisation; exploration.",
            "DESIGN.md §2 C03", TRUST),
    "C04": ("history monitor with a fresh-object oracle: random and bounded-exhaustive API call sequences on live solver "
            "objects, every answer compared with a brand-new object's; failing histories delta-debugged to a minimal sequence",
            "Histories of length <= 16 (random) and all histories of length <= 2/3 over a reduced alphabet, "
            "4 algorithms x 2 entry points, regular and singular systems; exploration of the history space.",
            "DESIGN.md §2 C04", TRUST),
    "C06": ("relational monitor on the real gama-local binary (ASan/UBSan build): error-free surveys derived from "
            "generated true coordinates, variants of approximate coordinates (exact / perturbed / omitted) and of "
            "instrument/target heights; oracle = the generating coordinates; trace hooks prove nothing was removed",
            "Each generated consistent network must come back with the generating coordinates (1e-6 m) and zero "
            "residuals; sampled networks: exploration.",
            "DESIGN.md §2 C06", TRUST),
    "C18": ("reference-model monitor: ellipsoid conversions vs the closed formula in extended precision, strict parser "
            "of printed angle strings, exhaustive enumeration of short literal strings vs reference regular expressions, "
            "bearing/distance identities; all through the sanitized libdrv",
            "Grid + adversarial values for the continuous functions, exhaustive strings up to length 7/8 over two "
            "9-letter alphabets for the recognisers; exploration (exhaustive on the finite sub-space).",
            "DESIGN.md §2 C18", TRUST),
    "C07": ("relational monitor with a physical oracle: one noisy survey expressed in equivalent ways (translation, "
            "circle zero, order, names, degrees, swapped ends, 8 axes x 2 handedness), every result mapped back to the "
            "physical frame and compared field by field",
            "Each re-expression of each generated survey must give the same physical result (1e-7 m, 1e-6 relative); "
            "sampled surveys x enumerated transformations: exploration.",
            "DESIGN.md §2 C07", TRUST),
    "C16": ("reference-model monitor inside a sanitized driver: sparse kernels vs naive dense long-double algebra on "
            "generated patterns with exactly proven rank",
            "Generated sparsity patterns (corner shapes + random) through SparseMatrix, graph, ordering, envelope "
            "LDL', solves, sparse inverse, block-diagonal Cholesky and homogenisation, compared entrywise with dense "
            "references; exploration.",
            "DESIGN.md §2 C16", TRUST),
    "C08": ("relational monitor: one noisy free network adjusted with several admissible constraint sets (admissibility "
            "decided by the numpy null space of the recorded system) x 4 algorithms; invariants compared; per run the "
            "minimum-norm / orthogonality condition checked on the recorded linear system (trace hook)",
            "Sampled free networks (defect 1..4) x sampled constraint subsets x algorithms; exploration.",
            "DESIGN.md §2 C08", TRUST),
    "C15": ("reference-model and history monitors inside a sanitized driver: exhaustive tiny integer matrices, random "
            "well-conditioned operands vs long-double naive algebra, object-lifecycle histories vs a shadow model, "
            "non-conforming operands, LeakSanitizer scenarios",
            "Exhaustive over tiny dimensions/entries, random beyond; every operator that compiles in matvec; "
            "exploration (exhaustive on the finite sub-space).",
            "DESIGN.md §2 C15", TRUST),
    "C09": ("offline checker over recorded runs: every statistic of gama-local's result XML recomputed from the linear "
            "system recorded by the trace hook (numpy reference cofactors) and scipy quantiles; scaling relation for sigma-apr",
            "All numeric fields (dof, m0, confidence scale, chi-square bounds and verdict, cov-mat, ellipses, stdev, qrr, "
            "f, standardised residuals) of every generated run recomputed independently; exploration.",
            "DESIGN.md §2 C09", TRUST),
    "C10": ("reference-model + relational monitor: covariance blocks of the adjusted system (trace hook) vs the sub-matrix "
            "of the written matrix after exclusions, weighted LS solution vs numpy, diagonal matrix vs stdevs, whitened "
            "reformulation through Adj, malformed matrices must be refused (sanitized binaries)",
            "Sampled networks with covariance matrices of every band width and planted exclusions; enumerated malformed "
            "variants per cluster kind x algorithm; exploration.",
            "DESIGN.md §2 C10", TRUST),
    "C20": ("relational monitor on the real binary: rank deficiencies of known kinds planted into generated networks; the "
            "outcome expected by construction, the behaviour of the four algorithms (outcome class, adjusted point set, "
            "results), deletion equivalence for the determinable rest and absence of non-finite numbers are checked; "
            "trace hooks give the removed points",
            "Sampled networks x 6 planted kinds x 4 algorithms; exploration.",
            "DESIGN.md §2 C20", TRUST),
    "C05": ("reference-model monitor by differentiation: design-matrix rows and misclosures recorded by the trace hook "
            "(and by the in-process driver netdrv) vs an independent longdouble implementation of the 13 observation "
            "functions differentiated by 4th-order central differences with a Richardson consistency check",
            "Adversarial single-observation geometries and whole generated networks, all axes/handedness conventions, "
            "every fixed/free/constrained mix; every coefficient, index and misclosure compared; exploration.",
            "DESIGN.md §2 C05", TRUST),
    "C13": ("relational monitor over export/adjust chains (3 rounds) on the real binary: parsed models compared by gama's "
            "own parser (modeldrv) and an independent reader, adjustments compared in the physical frame, zero "
            "iterations and fixed point demanded",
            "Sampled networks with every observation/cluster type and attribute, frames, removed items; exploration.",
            "DESIGN.md §2 C13", TRUST),
    "C12": ("relational monitor over the outputs of one run: well-formedness by an independent parser, gama's own result "
            "readers (readdrv) vs the independent reader, cross-format numbers (text/HTML/Octave/SVG), encodings, and "
            "the consumers compare-xyz / gama-local-deformation recomputed from the XML",
            "Generated networks with hostile ids/descriptions/extern values, all --cov-band, both angular units, "
            "11 languages x 5 encodings; exploration.",
            "DESIGN.md §2 C12", TRUST),
    "C19": ("reference-model + relational monitor on the real gama-g3 binary: generated ECEF networks with error-free "
            "observations (own ellipsoid model in longdouble), reproduction with exact / perturbed approximations "
            "(second-order bound), four algorithms, record order, redundancy/defect vs numpy rank, project-equation "
            "dump re-adjusted through Adj and checked against a numerically differentiated Jacobian",
            "Sampled networks over all latitudes/longitudes, all accepted observation kinds, fixed/free/constrained "
            "datum; exploration.",
            "DESIGN.md §2 C19", TRUST),
    "C14": ("runtime monitor on the real binary with trace hooks: defects with consequences known by construction "
            "(isolated / under-determined points, single directions, blunders at tol-abs*(1+-eps)) are injected; "
            "expected (construction + independent misclosures) vs done (hooks rm_point, rm_obs_abs_term, revision_obs) vs "
            "visible (text and XML reports) are compared, then exactly the excluded items are deleted and the results "
            "must agree; four algorithms must exclude the same items",
            "Sampled 1D/2D/3D networks x 14 defect kinds x blunders on every observation kind x tol-abs in {10,1000,1e5} "
            "x 4 algorithms; exploration.",
            "DESIGN.md §2 C14", TRUST),
    "C11": ("sanitizer monitor over generated hostile workloads: the GKF parser, DataParser and the adjustment-result "
            "readers driven in-process (parsedrv, ASan/UBSan) and the real gama-local binary, with grammar-derived valid "
            "documents, bounded-exhaustive tag-event sequences judged by the XSD content model, truncation at every byte, "
            "byte/token/element mutations, exhaustive short numeric literals per attribute slot, every chunking of a "
            "document vs one-shot parsing, random command lines; libFuzzer (clang) with a committed corpus finds further "
            "inputs that are re-judged on the sanitized binaries; thorough adds a valgrind memcheck sample",
            "Refuting events: sanitizer report, abnormal termination, reproducible watchdog overrun on a small input, "
            "parse-stage refusal without a line, refusal of a document of the documented grammar, silent acceptance of a "
            "clear-cut invalid document (recorded-but-unthrown parser error, lexically invalid number, missing mandatory "
            "attribute, misplaced element, cov-mat dimension), chunk-dependent outcome. All tag sequences up to length 4 "
            "(194 040) are exhaustive, everything else is sampled by count; termination is bounded progress only: "
            "exploration.",
            "DESIGN.md §2 C11", TRUST + " For C11 additionally: clang 14 libFuzzer (inputs only; verdicts come from the "
            "gcc-sanitized binaries), valgrind memcheck, python's expat as the independent well-formedness/structure reader."),
}

NOT_APPLICABLE = {}


def main():
    props = [json.loads(l)["id"] for l in open(os.path.join(ROOT, "properties.jsonl"))]
    checks = []
    for pid in props:
        if pid not in CHECKS:
            continue
        tech, text, ref, note = CHECKS[pid]
        checks.append(dict(
            property_id=pid,
            quick_cmd="bin/check %s --tier quick" % pid,
            thorough_cmd="bin/check %s --tier thorough" % pid,
            evidence_file="evidence/%s.json" % pid,
            replay_cmd_template="bin/check %s --replay {path}" % pid,
            engine="vf",
            level_claimed=dict(category="exploration", text=text, design_ref=ref),
            level_note=note,
            technique=tech,
        ))
    na = [dict(property_id=p, reason=NOT_APPLICABLE.get(p, "check not built yet in this round (planned, see DESIGN.md §2)"))
          for p in props if p not in CHECKS]
    try:
        commits = subprocess.run(["git", "-C", "/repo", "log", "--format=%H %s", "bbaa9ed..HEAD"],
                                 capture_output=True, text=True).stdout.strip().split("\n")
    except Exception:
        commits = []
    hook_commits = [c.split()[0] for c in commits if c and " hook:" in c]
    m = dict(
        version=1,
        setup_cmd="bin/setup",
        hooks=dict(
            guard="GAMA_VERIF",
            enable="checks compile /repo's working tree through harness/CMakeLists.txt (add_subdirectory(/repo)) with "
                   "-DGAMA_VERIF in CMAKE_CXX_FLAGS (see vf/runner.py FLAVOURS); trace output is switched on at run "
                   "time by env GAMA_VERIF_TRACE=<file>",
            baseline_off_cmd="bin/baseline_off",
            source_commits=hook_commits,
            add_only=True,
        ),
        engines=[dict(name="vf", path="vf/", serves_properties=[c["property_id"] for c in checks],
                      kind_free_text="python orchestration (generators, reference-model and relational monitors, "
                                     "offline checkers) + C++ drivers linked against /repo's objects, everything "
                                     "executed under gcc ASan+UBSan")],
        checks=checks,
        notes="Runtime monitoring family: sanitizers as always-on monitors + reference-model / relational / history "
              "monitors. known_findings.json lists recorded defects. VERIF_SEED selects the PRNG seed.",
        not_applicable=na,
    )
    with open(os.path.join(ROOT, "MANIFEST.json"), "w") as f:
        json.dump(m, f, indent=1)
    print("MANIFEST.json: %d checks, %d not claimed" % (len(checks), len(na)))


if __name__ == "__main__":
    main()
