"""Execution of adjdrv scripts (solver-level workloads for C01-C04, C10) with crash attribution."""
import numpy as np
from . import runner
from .lsq import to_script


def parse_reply(line):
    t = line.split()
    if not t:
        return ("?", line)
    if t[0] == "OK":
        return ("OK", [float(x) for x in t[1:]])
    if t[0] == "EXC":
        return ("EXC", " ".join(t[1:3]))
    return (t[0], line)


def vec(reply):
    """'OK n v1..vn' -> array of n values"""
    assert reply[0] == "OK"
    v = reply[1]
    return np.array(v[1:1 + int(v[0])])


def scalar(reply):
    assert reply[0] == "OK"
    return reply[1][0]


def run_scripts(items, batch=20, timeout=300):
    """items: list of (problem, [command lines]).  Returns list of dict(replies=[...], crash=None|RunResult,
    crash_cmd=str|None) in order.  A batch whose process dies or stalls is re-run item by item."""
    exe = runner.binpath("san", "adjdrv")

    def run_group(group):
        lines = []
        for P, cmds in group:
            lines += to_script(P) + list(cmds)
        rr = runner.run([exe], stdin="\n".join(lines) + "\n", timeout=timeout)
        out = rr.out.split("\n") if rr.out else []
        res, pos = [], 0
        ok = True
        for P, cmds in group:
            if pos >= len(out) or out[pos].strip() != "PROBLEM-OK":
                ok = False
                break
            pos += 1
            reps = out[pos:pos + len(cmds)]
            if len(reps) < len(cmds) or (len(reps) and reps[-1] == "" and pos + len(cmds) > len(out) - 1 and False):
                ok = False
                break
            reps = [r for r in reps]
            if any(r == "" for r in reps):
                ok = False
                break
            res.append(dict(replies=[parse_reply(r) for r in reps], crash=None, crash_cmd=None))
            pos += len(cmds)
        if ok and rr.rc == 0 and not rr.timeout and not rr.san:
            return res
        return None, rr

    def run_single(item):
        P, cmds = item
        lines = to_script(P) + list(cmds)
        rr = runner.run([exe], stdin="\n".join(lines) + "\n", timeout=timeout)
        out = [l for l in (rr.out.split("\n") if rr.out else []) if l != ""]
        reps = out[1:] if out and out[0].strip() == "PROBLEM-OK" else []
        d = dict(replies=[parse_reply(r) for r in reps[:len(cmds)]], crash=None, crash_cmd=None)
        if rr.rc != 0 or rr.timeout or rr.san or len(reps) < len(cmds):
            d["crash"] = rr
            d["crash_cmd"] = cmds[len(reps)] if len(reps) < len(cmds) else None
        return d

    groups = [items[i:i + batch] for i in range(0, len(items), batch)]

    def work(group):
        r = run_group(group)
        if isinstance(r, list):
            return r
        return [run_single(it) for it in group]

    out = []
    for r in runner.pmap(work, groups):
        out += r
    return out
