"""Generator of global (ECEF) networks for gama-g3, serialiser to its XML input (<g3-model>), independent
observation model with a numerically differentiated reference linearisation, and an independent reader of
gama-g3's XML adjustment output and of its --project-equations dump (<adj-input-data>).

Independent of gama's code: ellipsoid formulas (closed form blh->xyz, fixed-point iteration xyz->blh run to
convergence), observation functions and the local north-east-up frames are written here from their textbook
definitions, in numpy longdouble.

Definitions used (gama-g3 has no manual: the comments in g3_model_linearization.cpp / g3_point.cpp and the input
tags are the specification; deflections of the vertical are zero everywhere):
  n(P)          unit ellipsoidal normal at P (geodetic latitude B, longitude L of P on the chosen ellipsoid)
  frame(P)      north = dP/dB/|.|, east = dP/dL/|.|, up = n(P)
  inst(P, dh)   P + dh*n(P)                                   (instrument / target height along the normal)
  vector        inst(to) - inst(from)                          [m]      dx dy dz
  xyz           P                                              [m]
  distance      |inst(to) - inst(from)|                        [m]
  height        H(P) - geoid(P)     (H ellipsoidal height, <geoid> given with the point)   [m]
  hdiff         height(to) - height(from)                      [m]
  zenith        angle between n(from) and inst(to)-inst(from)  [gon | d-m-s]
  azimuth       atan2(east, north) of inst(to)-inst(from) in frame(from)
  angle         azimuth(from->right) - azimuth(from->left), clockwise, in [0, 400 gon)
Covariances in the file: mm^2 for lengths; cc^2 for angles given in gons, arc-second^2 for angles given as d-m-s.
"""
import math
import xml.etree.ElementTree as ET

import numpy as np

LD = np.longdouble
PI = LD(4) * np.arctan(LD(1))
GON = PI / LD(200)                  # radians per gon
RAD_TO_CC = LD(2000000) / PI        # cc per radian
SS_TO_CC = 3.0864                   # factor gama-g3 applies to covariances of angles given as d-m-s (exact: 1/0.324)
KINDS = ("vector", "xyz", "distance", "height", "hdiff", "zenith", "angle", "azimuth")
ANGULAR = ("zenith", "angle", "azimuth")
DIM = dict(vector=3, xyz=3, distance=1, height=1, hdiff=1, zenith=1, angle=1, azimuth=1)

# name -> (a, b, 1/f)   published defining constants (one of b, 1/f)
ELLIPSOIDS = {
    "wgs84": (6378137.0, None, 298.257223563),
    "grs80": (6378137.0, None, 298.257222101),
    "krassovski": (6378245.0, None, 298.3),
    "hayford": (6378388.0, None, 297.0),
    "international": (6378388.0, None, 297.0),
    "clarke1866": (6378206.4, 6356583.8, None),
    "wgs72": (6378135.0, None, 298.26),
    "australian": (6378160.0, None, 298.25),
    "wgs66": (6378145.0, None, 298.25),
}


class Ell:
    def __init__(self, a, b=None, invf=None, name=None, how="id"):
        self.name, self.how = name, how
        self.a_in, self.b_in, self.invf_in = a, b, invf
        self.a = LD(a)
        self.b = LD(b) if b is not None else self.a * (LD(1) - LD(1) / LD(invf))
        self.e2 = (self.a * self.a - self.b * self.b) / (self.a * self.a)

    def blh2xyz(self, b, l, h):
        sb, cb = np.sin(b), np.cos(b)
        N = self.a / np.sqrt(LD(1) - self.e2 * sb * sb)
        return np.array([(N + h) * cb * np.cos(l), (N + h) * cb * np.sin(l), (N * (LD(1) - self.e2) + h) * sb], dtype=LD)

    def xyz2blh(self, X):
        x, y, z = X[0], X[1], X[2]
        p = np.sqrt(x * x + y * y)
        l = np.arctan2(y, x)
        b = np.arctan2(z, p * (LD(1) - self.e2))
        for _ in range(40):
            sb = np.sin(b)
            N = self.a / np.sqrt(LD(1) - self.e2 * sb * sb)
            bn = np.arctan2(z + self.e2 * N * sb, p)
            done = abs(bn - b) < LD(1e-19)
            b = bn
            if done:
                break
        sb, cb = np.sin(b), np.cos(b)
        h = p * cb + z * sb - self.a * np.sqrt(LD(1) - self.e2 * sb * sb)
        return b, l, h


def frame(b, l):
    """3x3 matrix with columns north, east, up (NEU -> XYZ)"""
    sb, cb, sl, cl = np.sin(b), np.cos(b), np.sin(l), np.cos(l)
    return np.array([[-sb * cl, -sl, cb * cl],
                     [-sb * sl, cl, cb * sl],
                     [cb, LD(0), sb]], dtype=LD)


# ------------------------------------------------------------------ data model

class Pt:
    def __init__(self, pid, xyz, st, form="xyz", geoid=None):
        self.id = pid
        self.xyz = np.array(xyz, dtype=LD)          # generating ("true") coordinates
        self.st = dict(st)                           # n,e,u -> fixed | free | constr | unused
        self.form = form                             # xyz | blh | none (approximate coordinates left to gama)
        self.geoid = geoid
        self.d = np.zeros(3)                         # offset of the approximate coordinates (n,e,u at the truth) [m]

    def clone(self):
        q = Pt(self.id, self.xyz, self.st, self.form, self.geoid)
        q.d = self.d.copy()
        return q

    @property
    def fixed(self):
        return all(self.st[c] == "fixed" for c in "neu")

    @property
    def unused(self):
        return all(self.st[c] == "unused" for c in "neu")


class Obs:
    def __init__(self, kind, pts, dh=None, unit="gon"):
        self.kind = kind
        self.pts = tuple(pts)                        # (from,to) | (id,) | (from,left,right)
        self.dh = tuple(dh) if dh is not None else tuple(0.0 for _ in pts)
        self.unit = unit                             # gon | deg   (angular observations)
        self.true = None                             # LD array (m / rad)
        self.noise = np.zeros(DIM[kind])             # file covariance units (mm | cc | arc-seconds)
        self.inline = None                           # 'stdev' | 'variance' | None -> cov-mat

    @property
    def dim(self):
        return DIM[self.kind]

    def clone(self):
        o = Obs(self.kind, self.pts, self.dh, self.unit)
        o.true, o.noise, o.inline = self.true, self.noise.copy(), self.inline
        return o


class Cluster:
    def __init__(self, obs, C, band):
        self.obs = list(obs)
        self.C = np.array(C, dtype=float)            # dense, file units, exactly banded
        self.band = int(band)

    def clone(self):
        return Cluster([o.clone() for o in self.obs], self.C.copy(), self.band)

    def offsets(self):
        out, k = [], 0
        for o in self.obs:
            out.append(k)
            k += o.dim
        return out


class Net:
    def __init__(self, ell):
        self.ell = ell
        self.pts = {}                                # insertion ordered
        self.clusters = []
        self.apriori_sd = 1.0
        self.tol_abs = None
        self.ref = "aposteriori"
        self.noisy = False
        self.style = "local"
        self.meta = {}

    def clone(self):
        n = Net(self.ell)
        n.pts = {k: p.clone() for k, p in self.pts.items()}
        n.clusters = [c.clone() for c in self.clusters]
        n.apriori_sd, n.tol_abs, n.ref, n.noisy, n.style = self.apriori_sd, self.tol_abs, self.ref, self.noisy, self.style
        n.meta = dict(self.meta)
        return n

    def all_obs(self):
        for c in self.clusters:
            for o in c.obs:
                yield c, o

    def truth(self):
        return {k: p.xyz for k, p in self.pts.items()}

    def approx(self):
        """approximate coordinates as written to the file (before rounding to text)"""
        out = {}
        for k, p in self.pts.items():
            if np.any(p.d != 0):
                b, l, _ = self.ell.xyz2blh(p.xyz)
                out[k] = p.xyz + frame(b, l) @ np.array(p.d, dtype=LD)
            else:
                out[k] = p.xyz
        return out


# ------------------------------------------------------------------ observation model

class Geo:
    """evaluation context: coordinates -> cached geodetic quantities"""

    def __init__(self, ell, coords):
        self.ell, self.X = ell, coords
        self._blh, self._R = {}, {}

    def blh(self, i):
        if i not in self._blh:
            self._blh[i] = self.ell.xyz2blh(self.X[i])
        return self._blh[i]

    def R(self, i):
        if i not in self._R:
            b, l, _ = self.blh(i)
            self._R[i] = frame(b, l)
        return self._R[i]

    def normal(self, i):
        return self.R(i)[:, 2]

    def inst(self, i, dh):
        if dh == 0:
            return self.X[i]
        return self.X[i] + LD(dh) * self.normal(i)

    def replaced(self, i, x):
        c = dict(self.X)
        c[i] = x
        g = Geo(self.ell, c)
        g._blh = {k: v for k, v in self._blh.items() if k != i}
        g._R = {k: v for k, v in self._R.items() if k != i}
        return g


def model(g, net, o):
    """value of observation o for the coordinates in g -> LD array (metres / radians)"""
    k = o.kind
    if k == "xyz":
        return np.array(g.X[o.pts[0]], dtype=LD)
    if k == "height":
        return np.array([g.blh(o.pts[0])[2] - LD(net.pts[o.pts[0]].geoid)], dtype=LD)
    if k == "hdiff":
        a, b = o.pts
        return np.array([(g.blh(b)[2] - LD(net.pts[b].geoid)) - (g.blh(a)[2] - LD(net.pts[a].geoid))], dtype=LD)
    if k in ("vector", "distance", "zenith", "azimuth"):
        a, b = o.pts
        v = g.inst(b, o.dh[1]) - g.inst(a, o.dh[0])
        if k == "vector":
            return v
        if k == "distance":
            return np.array([np.sqrt(v @ v)], dtype=LD)
        loc = g.R(a).T @ v
        if k == "zenith":
            return np.array([np.arctan2(np.sqrt(loc[0] * loc[0] + loc[1] * loc[1]), loc[2])], dtype=LD)
        az = np.arctan2(loc[1], loc[0])
        return np.array([az if az >= 0 else az + 2 * PI], dtype=LD)
    if k == "angle":
        a, l, r = o.pts
        I = g.inst(a, o.dh[0])
        vl = g.R(a).T @ (g.inst(l, o.dh[1]) - I)
        vr = g.R(a).T @ (g.inst(r, o.dh[2]) - I)
        t = np.arctan2(vr[1], vr[0]) - np.arctan2(vl[1], vl[0])
        while t < 0:
            t += 2 * PI
        while t >= 2 * PI:
            t -= 2 * PI
        return np.array([t], dtype=LD)
    raise ValueError(k)


def wrap(kind, d):
    """difference of two values of an observation, angles wrapped to (-pi, pi]"""
    if kind in ("angle", "azimuth"):
        d = np.array(d, dtype=LD)
        for i in range(len(d)):
            while d[i] > PI:
                d[i] -= 2 * PI
            while d[i] <= -PI:
                d[i] += 2 * PI
    return d


def unit_scale(o):
    """internal unit (m | rad) -> gama's equation unit (mm | cc)"""
    return RAD_TO_CC if o.kind in ANGULAR else LD(1000)


def noise_internal(o):
    """noise (file covariance units) -> m | rad"""
    if o.kind in ANGULAR:
        if o.unit == "deg":
            return np.array(o.noise, dtype=LD) * (PI / LD(648000))
        return np.array(o.noise, dtype=LD) / RAD_TO_CC
    return np.array(o.noise, dtype=LD) / LD(1000)


def obs_value(net, o):
    """value written to the file (m / rad, LD)"""
    v = np.array(o.true, dtype=LD)
    if net.noisy:
        v = v + noise_internal(o)
    return v


def set_true(net):
    g = Geo(net.ell, net.truth())
    for _, o in net.all_obs():
        o.true = model(g, net, o)


def touched(o):
    """(point id, components) an observation makes parameters of"""
    if o.kind == "height":
        return [(o.pts[0], "u")]
    if o.kind == "hdiff":
        return [(o.pts[0], "u"), (o.pts[1], "u")]
    return [(p, "neu") for p in o.pts]


def active(net, o):
    return all((p in net.pts) and not net.pts[p].unused for p in o.pts)


def parameters(net):
    """ordered list of (point id, component) unknowns in the order gama-g3 numbers them: first appearance in the
    sequence of active observations, components n, e, u"""
    seen, out = set(), []
    for _, o in net.all_obs():
        if not active(net, o):
            continue
        for pid, comps in touched(o):
            for c in comps:
                if (pid, c) not in seen:
                    seen.add((pid, c))
                    if net.pts[pid].st[c] in ("free", "constr"):
                        out.append((pid, c))
    return out


def ref_system(net, coords=None, h=0.01):
    """Reference linearisation at `coords` (default: the approximate coordinates): A = dF/dp by central differences
    (step h metres along the n/e/u axes of the frame at the approximate point), b = observed - F, in gama's units
    (mm, cc); covariance blocks as cofactors (file covariances / apriori_sd^2).  -> problem dict for lsq.Reference
    plus params / rows tables."""
    X0 = coords if coords is not None else net.approx()
    g0 = Geo(net.ell, X0)
    params = parameters(net)
    col = {pc: j for j, pc in enumerate(params)}
    rows = []            # (cluster index, obs, component)
    vals = []
    blocks = []
    for ci, c in enumerate(net.clusters):
        act = []
        offs = c.offsets()
        for o, off in zip(c.obs, offs):
            if not active(net, o):
                continue
            f0 = model(g0, net, o)
            d = wrap(o.kind, obs_value(net, o) - f0) * unit_scale(o)
            for k in range(o.dim):
                rows.append((ci, o, k))
                vals.append(d[k])
                act.append(off + k)
        if act:
            s = np.ones(c.C.shape[0])
            for o, off in zip(c.obs, offs):
                if o.kind in ANGULAR and o.unit == "deg":
                    s[off] = SS_TO_CC
            Cs = c.C * np.outer(s, s)
            Ca = Cs[np.ix_(act, act)] / (net.apriori_sd ** 2)
            w = 0
            for i in range(len(act)):
                for j in range(i + 1, len(act)):
                    if Ca[i, j] != 0.0:
                        w = max(w, j - i)
            blocks.append((len(act), w, Ca))
    m, n = len(rows), len(params)
    A = np.zeros((m, n))
    ax = dict(n=0, e=1, u=2)
    by_point = {}
    for r, (_, o, k) in enumerate(rows):
        for pid in set(o.pts):
            by_point.setdefault(pid, []).append(r)
    cache = {}
    for (pid, c), j in col.items():
        R = g0.R(pid)
        e = R[:, ax[c]] * LD(h)
        gp = g0.replaced(pid, X0[pid] + e)
        gm = g0.replaced(pid, X0[pid] - e)
        done = {}
        for r in by_point.get(pid, []):
            _, o, k = rows[r]
            if id(o) not in done:
                done[id(o)] = wrap(o.kind, model(gp, net, o) - model(gm, net, o)) / (2 * LD(h)) * unit_scale(o) / LD(1000)
            A[r, j] = float(done[id(o)][k])
    minx = [j + 1 for j, (pid, c) in enumerate(params) if net.pts[pid].st[c] == "constr"]
    P = dict(A=A, b=np.array([float(v) for v in vals]), blocks=blocks, minx=minx if minx else None,
             meta=dict(m=m, n=n))
    return P, params, rows


# ------------------------------------------------------------------ serialisation

def fnum(v):
    return repr(float(v))


def dms_text(rad, prec=11):
    """radians -> ('[-]d-mm-ss.sss', value in radians that the text denotes)"""
    neg = rad < 0
    sec = abs(rad) * (LD(648000) / PI)
    q = 10 ** prec
    t = int(np.floor(sec * LD(q) + LD(0.5)))
    d, rem = divmod(t, 3600 * q)
    mi, s = divmod(rem, 60 * q)
    txt = "%s%d-%02d-%02d.%0*d" % ("-" if neg else "", d, mi, s // q, prec, s % q)
    val = LD(t) / LD(q) * (PI / LD(648000))
    return txt, (-val if neg else val)


def status_xml(st):
    groups = {}
    for c in "neu":
        groups.setdefault(st[c], []).append(c)
    tag = dict(fixed="fixed", free="free", constr="constr", unused="unused")
    return " ".join("<%s>%s</%s>" % (tag[s], "".join("<%s/>" % c for c in cs), tag[s]) for s, cs in groups.items())


def to_xml(net, point_order=None, cluster_order=None, obs_order=None):
    """serialise; *_order are permutations (lists of indexes); obs_order: {cluster index: permutation}"""
    out = ['<?xml version="1.0" ?>', '<gnu-gama-data xmlns="http://www.gnu.org/software/gama/gnu-gama-data">',
           "<text>generated by vf/g3gen.py</text>", "<g3-model>", "<constants>"]
    out.append("  <apriori-standard-deviation>%s</apriori-standard-deviation>" % fnum(net.apriori_sd))
    if net.tol_abs is not None:
        out.append("  <tol-abs>%s</tol-abs>" % fnum(net.tol_abs))
    out.append("  <reference-variance-apriory/>" if net.ref == "apriori" else "  <reference-variance-aposteriori/>")
    e = net.ell
    if e.how == "id":
        out.append("  <ellipsoid><id>%s</id></ellipsoid>" % e.name)
    elif e.how == "ab":
        out.append("  <ellipsoid><a>%s</a><b>%s</b></ellipsoid>" % (fnum(e.a_in), fnum(e.b_in)))
    elif e.how == "af":
        out.append("  <ellipsoid><a>%s</a><inv-f>%s</inv-f></ellipsoid>" % (fnum(e.a_in), fnum(e.invf_in)))
    out.append("</constants>")
    ids = list(net.pts)
    if point_order is not None:
        ids = [ids[i] for i in point_order]
    approx = net.approx()
    cur = None
    for k, pid in enumerate(ids):
        p = net.pts[pid]
        local = net.style == "local" or (net.style == "mixed" and k % 2 == 1)
        if not local and cur != p.st:
            out.append(status_xml(p.st))
            cur = dict(p.st)
        s = "<point> <id>%s</id>" % pid
        if p.form == "xyz":
            a = approx[pid]
            s += " <x>%s</x> <y>%s</y> <z>%s</z>" % (fnum(a[0]), fnum(a[1]), fnum(a[2]))
        elif p.form == "blh":
            b, l, hh = net.ell.xyz2blh(approx[pid])
            s += " <b>%s</b> <l>%s</l> <h>%s</h>" % (dms_text(b)[0], dms_text(l)[0], fnum(hh))
        if p.geoid is not None:
            s += " <geoid>%s</geoid>" % fnum(p.geoid)
        if local:
            s += " " + status_xml(p.st)
        s += " </point>"
        out.append(s)
    cidx = list(range(len(net.clusters)))
    if cluster_order is not None:
        cidx = [cidx[i] for i in cluster_order]
    for ci in cidx:
        c = net.clusters[ci]
        perm = list(range(len(c.obs)))
        if obs_order and ci in obs_order:
            perm = list(obs_order[ci])
        offs = c.offsets()
        out.append("<obs>")
        idx = []
        inline_all = all(c.obs[k].inline for k in perm)
        for k in perm:
            o = c.obs[k]
            v = obs_value(net, o)
            idx += list(range(offs[k], offs[k] + o.dim))
            extra = ""
            if o.kind in ("vector", "distance", "zenith", "azimuth", "hdiff"):
                # (hdiff: gama-g3 has no instrument heights for height differences)
                if o.kind != "hdiff":
                    if o.dh[0] != 0:
                        extra += " <from-dh>%s</from-dh>" % fnum(o.dh[0])
                    if o.dh[1] != 0:
                        extra += " <to-dh>%s</to-dh>" % fnum(o.dh[1])
            if inline_all:
                var = c.C[offs[k], offs[k]]
                extra += " <stdev>%s</stdev>" % fnum(math.sqrt(var)) if o.inline == "stdev" else \
                    " <variance>%s</variance>" % fnum(var)
            if o.kind in ANGULAR:
                if o.unit == "deg":
                    val = dms_text(v[0], 9)[0]
                else:
                    val = fnum(v[0] / GON)
            if o.kind == "vector":
                out.append("  <vector> <from>%s</from> <to>%s</to> <dx>%s</dx> <dy>%s</dy> <dz>%s</dz>%s </vector>" % (
                    o.pts[0], o.pts[1], fnum(v[0]), fnum(v[1]), fnum(v[2]), extra))
            elif o.kind == "xyz":
                out.append("  <xyz> <id>%s</id> <x>%s</x> <y>%s</y> <z>%s</z> </xyz>" % (
                    o.pts[0], fnum(v[0]), fnum(v[1]), fnum(v[2])))
            elif o.kind == "distance":
                out.append("  <distance> <from>%s</from> <to>%s</to> <val>%s</val>%s </distance>" % (
                    o.pts[0], o.pts[1], fnum(v[0]), extra))
            elif o.kind == "height":
                out.append("  <height> <id>%s</id> <val>%s</val>%s </height>" % (o.pts[0], fnum(v[0]), extra))
            elif o.kind == "hdiff":
                out.append("  <hdiff> <from>%s</from> <to>%s</to> <val>%s</val>%s </hdiff>" % (
                    o.pts[0], o.pts[1], fnum(v[0]), extra))
            elif o.kind in ("zenith", "azimuth"):
                out.append("  <%s> <from>%s</from> <to>%s</to> <val>%s</val>%s </%s>" % (
                    o.kind, o.pts[0], o.pts[1], val, extra, o.kind))
            elif o.kind == "angle":
                if o.dh[2] != 0:
                    extra = " <right-dh>%s</right-dh>" % fnum(o.dh[2]) + extra
                if o.dh[1] != 0:
                    extra = " <left-dh>%s</left-dh>" % fnum(o.dh[1]) + extra
                if o.dh[0] != 0:
                    extra = " <from-dh>%s</from-dh>" % fnum(o.dh[0]) + extra
                out.append("  <angle> <from>%s</from> <left>%s</left> <right>%s</right> <val>%s</val>%s </angle>" % (
                    o.pts[0], o.pts[1], o.pts[2], val, extra))
        if not inline_all:
            Cp = c.C[np.ix_(idx, idx)]
            dim = len(idx)
            band = 0
            for i in range(dim):
                for j in range(i + 1, dim):
                    if Cp[i, j] != 0.0:
                        band = max(band, j - i)
            rowsx = []
            for i in range(dim):
                rowsx.append(" ".join("<flt>%s</flt>" % fnum(Cp[i, j]) for j in range(i, min(dim, i + band + 1))))
            out.append("  <cov-mat> <dim>%d</dim> <band>%d</band>\n    %s\n  </cov-mat>" % (dim, band, "\n    ".join(rowsx)))
        out.append("</obs>")
    out += ["</g3-model>", "</gnu-gama-data>", ""]
    return "\n".join(out)


# ------------------------------------------------------------------ generator

LAT_BANDS = ("equator", "mid", "high", "polar", "pole-cap")


def pick_place(rng, band=None, lonclass=None):
    band = band or str(rng.choice(LAT_BANDS, p=[0.15, 0.4, 0.2, 0.15, 0.1]))
    if band == "equator":
        lat = rng.uniform(-5, 5)
    elif band == "mid":
        lat = rng.uniform(5, 60)
    elif band == "high":
        lat = rng.uniform(60, 85)
    elif band == "polar":
        lat = rng.uniform(85, 89.9)
    else:
        lat = rng.uniform(89.9, 89.995)
    south = bool(rng.uniform() < 0.4) and band != "equator"
    if south:
        lat = -lat
    lonclass = lonclass or str(rng.choice(["any", "any", "dateline", "greenwich"]))
    if lonclass == "dateline":
        lon = float(rng.choice([-1, 1])) * rng.uniform(179.9, 180.0)
    elif lonclass == "greenwich":
        lon = rng.uniform(-0.1, 0.1)
    else:
        lon = rng.uniform(-180, 180)
    return band, ("S" if lat < 0 else "N"), lonclass, lat, lon


def spd(rng, dim, band, sd_lo, sd_hi):
    """exactly banded SPD matrix with standard deviations in [sd_lo, sd_hi] (C = D L L' D, L unit-ish lower band)"""
    L = np.zeros((dim, dim))
    for i in range(dim):
        L[i, i] = 1.0
        for j in range(max(0, i - band), i):
            L[i, j] = rng.uniform(-0.5, 0.5) / math.sqrt(max(1, band))
    C = L @ L.T
    d = np.sqrt(np.diag(C))
    sd = rng.uniform(sd_lo, sd_hi, dim)
    C = C / np.outer(d, d) * np.outer(sd, sd)
    for i in range(dim):
        for j in range(dim):
            if abs(i - j) > band:
                C[i, j] = 0.0
    C = (C + C.T) / 2
    # keep a few significant digits only: the file then holds exactly the matrix the reference uses
    C = np.array([[float("%.6g" % v) for v in row] for row in C])
    C = (C + C.T) / 2
    if np.linalg.eigvalsh(C)[0] <= 1e-3 * sd_lo ** 2:
        return spd(rng, dim, max(0, band - 1), sd_lo, sd_hi)
    return C


def make_clusters(rng, obs_list, kinds, features):
    """group observations into covariance blocks"""
    obs = {k: [o for o in obs_list if o.kind == k] for k in KINDS}
    sdv = dict(vector=(2.0, 12.0), xyz=(3.0, 15.0), distance=(2.0, 10.0), height=(3.0, 15.0), hdiff=(1.0, 8.0),
               zenith=(3.0, 15.0), angle=(3.0, 15.0), azimuth=(3.0, 15.0))
    pool = []
    for k in kinds:
        lst = obs[k]
        lst = [lst[i] for i in rng.permutation(len(lst))]
        if k in ("vector", "xyz"):
            while lst:
                m = 1 if "clusters" not in features else int(rng.integers(1, 5))
                grp, lst = lst[:m], lst[m:]
                dim = 3 * len(grp)
                bw = dim - 1 if rng.uniform() < 0.6 else int(rng.integers(0, dim))
                if "clusters" not in features and rng.uniform() < 0.15:
                    bw = 0
                pool.append(Cluster(grp, spd(rng, dim, bw, *sdv[k]), bw))
        else:
            while lst:
                m = int(rng.integers(1, 9)) if "clusters" in features else int(rng.integers(1, 4))
                grp, lst = lst[:m], lst[m:]
                dim = len(grp)
                bw = 0 if rng.uniform() < 0.5 else int(rng.integers(0, dim))
                C = spd(rng, dim, bw, *sdv[k])
                if "deg" in features:
                    # arc-second units for the members given as d-m-s
                    s = np.array([1.0 / 3.0 if (o.kind in ANGULAR and o.unit == "deg") else 1.0 for o in grp])
                    C = np.array([[float("%.6g" % v) for v in row] for row in C * np.outer(s, s)])
                cl = Cluster(grp, C, bw)
                if "inline" in features and np.count_nonzero(C - np.diag(np.diag(C))) == 0 and rng.uniform() < 0.6:
                    for o in grp:
                        o.inline = str(rng.choice(["stdev", "variance"]))
                pool.append(cl)
    if "mixed-cluster" in features and len(pool) >= 2:
        # merge pairs of clusters of different kinds into one block (block-diagonal covariance, band as needed)
        merged, used = [], set()
        idx = [int(i) for i in rng.permutation(len(pool))]
        for a, bq in zip(idx[0::2], idx[1::2]):
            if rng.uniform() < 0.5:
                ca, cb = pool[a], pool[bq]
                da, db = ca.C.shape[0], cb.C.shape[0]
                C = np.zeros((da + db, da + db))
                C[:da, :da] = ca.C
                C[da:, da:] = cb.C
                if rng.uniform() < 0.5:     # a genuine cross covariance between the two groups
                    C[da - 1, da] = C[da, da - 1] = 0.2 * math.sqrt(C[da - 1, da - 1] * C[da, da])
                    C[da - 1, da] = C[da, da - 1] = float("%.6g" % C[da, da - 1])
                for o in ca.obs + cb.obs:
                    o.inline = None
                bw = max(ca.band, cb.band, 1)
                if np.linalg.eigvalsh(C)[0] > 0:
                    merged.append(Cluster(ca.obs + cb.obs, C, bw))
                    used |= {a, bq}
        pool = [c for i, c in enumerate(pool) if i not in used] + merged
    return pool


def gen_net(rng, kinds, datum, band=None, lonclass=None, npts=None, ell=None, features=()):
    """Truth + consistent observations.  kinds: subset of KINDS; datum: fixed | free | mixed.
    features: 'dh' (instrument/target heights), 'deg' (angles as d-m-s), 'blh' (some points as B L H),
    'clusters' (several observations per covariance block), 'mixed-cluster' (vectors and scalars in one block),
    'inline' (stdev / variance inside the observation), 'partial' (points with fixed height or fixed position only),
    'wide-angles' (angles above 200 gon are kept, otherwise left/right are swapped), 'angle-target-dh' (target heights
    of angles), 'idle-point' (a listed point without observations)."""
    features = set(features)
    if ell is None:
        how = str(rng.choice(["id", "id", "id", "ab", "af"]))
        if how == "id":
            name = str(rng.choice(list(ELLIPSOIDS), p=None)) if rng.uniform() < 0.5 else "wgs84"
            a, b, f = ELLIPSOIDS[name]
            ell = Ell(a, b, f, name, "id")
        elif how == "ab":
            a = float(round(rng.uniform(6376000, 6379000), 3))
            ell = Ell(a, float(round(a * (1 - 1 / rng.uniform(290, 305)), 3)), None, "custom-ab", "ab")
        else:
            ell = Ell(float(round(rng.uniform(6376000, 6379000), 3)), None, float(round(rng.uniform(290, 305), 6)),
                      "custom-af", "af")
    net = Net(ell)
    bandname, hemi, lonclass, lat, lon = pick_place(rng, band, lonclass)
    n = int(npts or rng.integers(4, 13))
    size = float(10 ** rng.uniform(math.log10(100.0), math.log10(50000.0)))     # radius of the network [m]
    b0, l0 = LD(lat) * PI / 180, LD(lon) * PI / 180
    h0 = float(rng.uniform(-100, 3600))
    C0 = ell.blh2xyz(b0, l0, LD(0))
    R0 = frame(b0, l0)
    # horizontal positions with a minimum separation
    dmin = max(30.0, size / (2.5 * math.sqrt(n)))
    loc = []
    tries = 0
    while len(loc) < n and tries < 5000:
        tries += 1
        r = size * math.sqrt(rng.uniform(0.0, 1.0))
        t = rng.uniform(0, 2 * math.pi)
        q = (r * math.cos(t), r * math.sin(t))
        if all(math.hypot(q[0] - p[0], q[1] - p[1]) >= dmin for p in loc):
            loc.append(q)
    n = len(loc)
    hvar = min(400.0, 0.25 * dmin)
    ids = ["P%d" % (k + 1) if rng.uniform() < 0.7 else "%s%d" % (str(rng.choice(["A", "st.", "pt_", "7"])), k + 1)
           for k in range(n)]
    for k in range(n):
        X = C0 + R0 @ np.array([loc[k][0], loc[k][1], 0.0], dtype=LD)
        b, l, _ = ell.xyz2blh(X)
        pole_dist = math.hypot(float(X[0]), float(X[1]))
        if pole_dist < 20.0:                      # not on the axis itself (longitude undefined)
            b, l = b - LD(1e-5), l
        h = min(4000.0, max(-100.0, h0 + rng.uniform(-1, 1) * hvar))
        X = ell.blh2xyz(b, l, LD(h))
        X = np.array([float(round(float(v), 4)) for v in X], dtype=LD)        # truth exactly representable in the file
        net.pts[ids[k]] = Pt(ids[k], X, dict(n="free", e="free", u="free"))
    need_geoid = bool({"height", "hdiff"} & set(kinds))
    for p in net.pts.values():
        if need_geoid:
            p.geoid = float(round(rng.uniform(-60, 60), 3)) if rng.uniform() < 0.8 else 0.0
    # ---- datum
    perm = [ids[i] for i in rng.permutation(n)]
    if datum == "fixed":
        nf = int(rng.integers(1, max(2, n // 3) + 1))
        if not ({"vector", "xyz"} & set(kinds)):
            nf = max(nf, 3)            # distances / angles / heights alone do not fix position and orientation
        for i in perm[:nf]:
            net.pts[i].st = dict(n="fixed", e="fixed", u="fixed")
        if "partial" in features:
            for i in perm[nf:nf + 2]:
                net.pts[i].st = dict(n="fixed", e="fixed", u="free") if rng.uniform() < 0.5 else \
                    dict(n="free", e="free", u="fixed")
    elif datum == "free":
        nc = n if rng.uniform() < 0.35 else int(rng.integers(max(3, (n + 1) // 2), n + 1))
        for i in perm[:nc]:
            net.pts[i].st = dict(n="constr", e="constr", u="constr")
    else:   # mixed: fixed points and constrained ones
        for i in perm[:1]:
            net.pts[i].st = dict(n="fixed", e="fixed", u="fixed")
        for i in perm[1:1 + max(2, n // 2)]:
            net.pts[i].st = dict(n="constr", e="constr", u="constr")
    # ---- graph
    edges = set()
    order = [int(i) for i in rng.permutation(n)]
    for k in range(1, n):
        a = order[k]
        # connect to the nearest already connected point or a random one
        cand = order[:k]
        if rng.uniform() < 0.7:
            bq = min(cand, key=lambda c: math.hypot(loc[a][0] - loc[c][0], loc[a][1] - loc[c][1]))
        else:
            bq = int(rng.choice(cand))
        edges.add((min(a, bq), max(a, bq)))
    extra = int(rng.integers(n, 2 * n + 1))
    for _ in range(extra):
        a, bq = [int(v) for v in rng.choice(n, 2, replace=False)]
        edges.add((min(a, bq), max(a, bq)))
    edges = sorted(edges)
    kinds = [k for k in KINDS if k in kinds]
    dh_on = "dh" in features

    def dh():
        return float(round(rng.uniform(1.0, 2.2), 3)) if dh_on and rng.uniform() < 0.5 else 0.0

    def unit():
        return "deg" if "deg" in features and rng.uniform() < 0.5 else "gon"

    def ends(e):
        a, bq = e
        return (ids[a], ids[bq]) if rng.uniform() < 0.5 else (ids[bq], ids[a])

    obs = {k: [] for k in KINDS}
    only = len(kinds) == 1
    share = dict(vector=1.0 if only else 0.55, distance=1.0 if only else 0.7, zenith=0.6, azimuth=0.3, hdiff=0.5)
    for k in ("vector", "distance", "zenith", "azimuth", "hdiff"):
        if k not in kinds:
            continue
        for e in edges:
            if rng.uniform() < share[k]:
                obs[k].append(Obs(k, ends(e), (dh(), dh()) if k != "hdiff" else None, unit()))
                if k == "zenith" and rng.uniform() < 0.3:
                    o = obs[k][-1]
                    obs[k].append(Obs(k, (o.pts[1], o.pts[0]), (dh(), dh()), unit()))
    if "height" in kinds:
        for i in ids:
            if rng.uniform() < 0.6:
                obs["height"].append(Obs("height", (i,)))
        if not obs["height"]:
            obs["height"].append(Obs("height", (ids[0],)))
    if "xyz" in kinds:
        for i in perm[:int(rng.integers(1, 4))]:
            obs["xyz"].append(Obs("xyz", (i,)))
    if "angle" in kinds:
        gtruth = Geo(ell, net.truth())
        nb = {i: set() for i in range(n)}
        for a, bq in edges:
            nb[a].add(bq)
            nb[bq].add(a)
        for a in range(n):
            t = sorted(nb[a])
            if len(t) < 2:
                t = sorted(set(t) | {int(v) for v in rng.choice([x for x in range(n) if x != a], 2, replace=False)})
            t = [int(v) for v in rng.permutation(t)]
            for k in range(len(t) - 1):
                if rng.uniform() < 0.8:
                    o = Obs("angle", (ids[a], ids[t[k]], ids[t[k + 1]]),
                            (dh(), dh() if "angle-target-dh" in features else 0.0,
                             dh() if "angle-target-dh" in features else 0.0), unit())
                    v = float(model(gtruth, net, o)[0]) / math.pi * 200.0
                    if min(v, abs(v - 200.0), 400.0 - v) < 3.0:
                        continue                       # targets (nearly) in line with the station
                    if v > 200.0 and "wide-angles" not in features:
                        o = Obs("angle", (o.pts[0], o.pts[2], o.pts[1]), (o.dh[0], o.dh[2], o.dh[1]), o.unit)
                    obs["angle"].append(o)
    # ---- clusters
    net.clusters = make_clusters(rng, [o for k in kinds for o in obs[k]], kinds, features)
    # ---- determinacy: every unknown component must be a parameter, the rank defect must be resolvable by the
    # datum chosen, and the conditioning moderate (reference model; observations are added until it is so)
    from . import lsq
    net.meta["admitted"] = False
    for attempt in range(6):
        set_true(net)
        P, params, _rows = ref_system(net, coords=net.truth())
        want = [(pid, c) for pid, p in net.pts.items() for c in "neu" if p.st[c] in ("free", "constr")]
        missing = [pc for pc in want if pc not in set(params)]
        ok = False
        if not missing and P["A"].shape[0] >= 1:
            ref = lsq.Reference(P)
            ok = ref.ok and ref.kappa <= 2e3 and (ref.defect == 0 or (P["minx"] is not None and ref.subset_ok))
            if ok and ref.defect and P["minx"] is not None:
                Gs = ref.G[[j - 1 for j in P["minx"]], :]
                ok = bool(np.linalg.svd(Gs, compute_uv=False)[-1] > 0.05)
        if ok:
            net.meta["admitted"] = True
            break
        # add observations
        have = {}
        for _, o in net.all_obs():
            if len(o.pts) == 2:
                have.setdefault(o.kind, set()).add(frozenset(o.pts))
        if attempt >= 1:
            for _ in range(n):
                a, bq = [int(v) for v in rng.choice(n, 2, replace=False)]
                if (min(a, bq), max(a, bq)) not in edges:
                    edges.append((min(a, bq), max(a, bq)))
        add = []
        carriers = [k for k in ("vector", "distance", "zenith", "hdiff") if k in kinds]
        if attempt >= 2 and "vector" not in kinds and "distance" not in kinds:
            break
        for k in carriers:
            for e in edges:
                if frozenset((ids[e[0]], ids[e[1]])) not in have.get(k, set()):
                    if attempt == 0 and rng.uniform() < 0.3:
                        continue
                    add.append(Obs(k, ends(e), (dh(), dh()) if k != "hdiff" else None, unit()))
        if "height" in kinds:
            got = {o.pts[0] for _, o in net.all_obs() if o.kind == "height"}
            add += [Obs("height", (i,)) for i in ids if i not in got]
        if not add:
            if attempt >= 1:
                break
            continue
        net.clusters += make_clusters(rng, add, kinds, features - {"mixed-cluster"})
    net.clusters = [net.clusters[i] for i in rng.permutation(len(net.clusters))]
    if "idle-point" in features:
        # a point that is listed (free, with coordinates) but takes part in no observation
        X = C0 + R0 @ np.array([1.3 * size, 0.0, 0.0], dtype=LD)
        b, l, _ = ell.xyz2blh(X)
        X = ell.blh2xyz(b, l, LD(h0))
        X = np.array([float(round(float(v), 4)) for v in X], dtype=LD)
        q = Pt("IDLE", X, dict(n="free", e="free", u="free"), geoid=0.0 if need_geoid else None)
        items = list(net.pts.items())
        items.insert(int(rng.integers(0, len(items) + 1)), ("IDLE", q))
        net.pts = dict(items)
    # a cluster whose members are all inline must stay so; a cluster with mixed inline flags uses a cov-mat
    for c in net.clusters:
        if not all(o.inline for o in c.obs):
            for o in c.obs:
                o.inline = None
    # ---- point forms
    if "blh" in features:
        for p in net.pts.values():
            if rng.uniform() < 0.4:
                p.form = "blh"
    net.style = str(rng.choice(["local", "global", "mixed"]))
    net.apriori_sd = float(rng.choice([1.0, 1.0, 2.0, 5.0, 10.0]))
    set_true(net)
    # noise ~ N(0, C)
    for c in net.clusters:
        L = np.linalg.cholesky(c.C)
        e = L @ rng.standard_normal(c.C.shape[0])
        for o, off in zip(c.obs, c.offsets()):
            o.noise = e[off:off + o.dim].copy()
    net.meta = dict(admitted=net.meta.get("admitted", False), band=bandname, hemi=hemi, lon=lonclass, lat=lat, lon_deg=lon, size=size, n=n, datum=datum,
                    kinds="+".join(kinds), ell=ell.name, ell_how=ell.how, features=sorted(features), h0=h0)
    return net


def min_sight(net):
    d = float("inf")
    X = net.truth()
    for _, o in net.all_obs():
        if len(o.pts) >= 2:
            for q in o.pts[1:]:
                v = X[q] - X[o.pts[0]]
                d = min(d, float(np.sqrt(v @ v)))
    if not math.isfinite(d):
        ids = list(X)
        for i in range(len(ids)):
            for j in range(i + 1, len(ids)):
                v = X[ids[i]] - X[ids[j]]
                d = min(d, float(np.sqrt(v @ v)))
    return d


def perturb(rng, net, delta):
    """approximate coordinates of the unknown, non-constrained components moved by up to delta metres (per point a
    random direction with length in [delta/2, delta]); constrained points define the datum and stay"""
    for p in net.pts.values():
        comps = [k for k, c in enumerate("neu") if p.st[c] == "free"]
        if not comps:
            continue
        v = rng.standard_normal(len(comps))
        v = v / np.linalg.norm(v) * rng.uniform(0.5, 1.0) * delta
        p.d = np.zeros(3)
        for k, x in zip(comps, v):
            p.d[k] = float(x)


# ------------------------------------------------------------------ reader of gama-g3's output

NS = "{http://www.gnu.org/software/gama/gnu-gama-data}"


class ParseFailure(Exception):
    pass


def _txt(e, name):
    x = e.find(NS + name)
    return None if x is None or x.text is None else x.text.strip()


def _flt(e, name):
    t = _txt(e, name)
    return None if t is None else float(t)


def parse_dms(t):
    t = t.strip()
    neg = t.startswith("-")
    if neg:
        t = t[1:]
    d, m, s = t.split("-")
    v = (LD(int(d)) + LD(int(m)) / 60 + LD(s) / 3600) * PI / 180
    return -v if neg else v


def parse_results(text):
    """gama-g3 adjustment XML -> dict(stats, points{id}, obs[list], rejected[list])"""
    try:
        root = ET.fromstring(text)
    except ET.ParseError as e:
        raise ParseFailure(str(e))
    res = root.find(NS + "g3-adjustment-results")
    if res is None:
        raise ParseFailure("no <g3-adjustment-results>")
    R = dict(points={}, obs=[], rejected=[], point_order=[])
    st = res.find(NS + "adjustment-statistics")
    S = {}
    S["algorithm"] = _txt(st, "algorithm")
    el = st.find(NS + "ellipsoid")
    S["ell_id"], S["ell_a"], S["ell_b"] = _txt(el, "id"), _flt(el, "a"), _flt(el, "b")
    for k in ("parameters", "equations", "defect", "redundancy"):
        S[k] = int(_txt(st, k))
    S["sum_of_squares"] = _flt(st, "sum-of-squares")
    S["apriori_variance"] = _flt(st, "apriori-variance")
    S["aposteriori_variance"] = _flt(st, "aposteriori-variance")
    S["variance_used"] = _txt(st, "variance-factor-used")
    S["graph"] = _txt(st, "design-matrix-graph")
    R["stats"] = S
    rj = res.find(NS + "rejected-observations")
    if rj is not None:
        for r in rj.findall(NS + "rejected"):
            kinds = [c.tag.replace(NS, "") for c in r if c.tag.replace(NS, "") not in ("reason", "flt")]
            R["rejected"].append(dict(reason=_txt(r, "reason"), kind=kinds[0] if kinds else None,
                                      flt=[float(f.text) for f in r.findall(NS + "flt")]))
    ar = res.find(NS + "adjustment-results")
    for p in ar.findall(NS + "point"):
        pid = _txt(p, "id")
        P = dict(id=pid, status={}, ind={})
        for c in "neu":
            for s in ("fixed", "free", "constr", "unused"):
                if p.find(NS + "%s-%s" % (c, s)) is not None:
                    P["status"][c] = s
        if "u" not in P["status"] and p.find(NS + "unused") is not None:
            P["status"]["u"] = "unused"
        # <ind> elements follow dn / de / du in document order
        last = None
        for ch in p:
            t = ch.tag.replace(NS, "")
            if t in ("dn", "de", "du"):
                P[t] = float(ch.text)
                last = t[1]
            elif t == "ind" and last:
                P["ind"][last] = int(ch.text)
                last = None
        for k in ("cnn", "cne", "cnu", "cee", "ceu", "cuu", "cxx", "cxy", "cxz", "cyy", "cyz", "czz",
                  "x-given", "x-correction", "x-adjusted", "y-given", "y-correction", "y-adjusted",
                  "z-given", "z-correction", "z-adjusted", "h-given", "h-correction", "h-adjusted",
                  "b-correction", "l-correction", "height-given", "height-correction", "height-adjusted", "geoid"):
            v = _flt(p, k)
            if v is not None:
                P[k] = v
        for k in ("b-given", "b-adjusted", "l-given", "l-adjusted"):
            t = _txt(p, k)
            if t is not None:
                P[k] = t
        R["points"][pid] = P
        R["point_order"].append(pid)
    ao = res.find(NS + "adjusted-observations")
    for o in ao:
        t = o.tag.replace(NS, "")
        O = dict(kind={"height-diff": "hdiff", "zenith-angle": "zenith"}.get(t, t))
        for ch in o:
            ct = ch.tag.replace(NS, "")
            if ct in ("from", "to", "id"):
                O[ct] = (ch.text or "").strip()
            elif ct == "ind":
                O["ind"] = int(ch.text)
            else:
                try:
                    O[ct] = float(ch.text)
                except (TypeError, ValueError):
                    O[ct] = ch.text
        R["obs"].append(O)
    return R


def parse_adj_input(text):
    """--project-equations dump (<adj-input-data>) -> problem dict as used by vf.lsq (A dense, b, blocks, minx)"""
    try:
        root = ET.fromstring(text)
    except ET.ParseError as e:
        raise ParseFailure(str(e))
    d = root.find(NS + "adj-input-data")
    if d is None:
        raise ParseFailure("no <adj-input-data>")
    sm = d.find(NS + "sparse-mat")
    if sm is None:
        raise ParseFailure("no <sparse-mat>")
    m, n, nonz = int(_txt(sm, "rows")), int(_txt(sm, "cols")), int(_txt(sm, "nonz"))
    A = np.zeros((m, n))
    rows = sm.findall(NS + "row")
    if len(rows) != m:
        raise ParseFailure("%d <row> elements, <rows> says %d" % (len(rows), m))
    cnt = 0
    dup = 0
    for i, r in enumerate(rows):
        k = int(_txt(r, "nonz"))
        ints = [int(x.text) for x in r.findall(NS + "int")]
        flts = [float(x.text) for x in r.findall(NS + "flt")]
        if len(ints) != k or len(flts) != k:
            raise ParseFailure("row %d: nonz %d but %d/%d entries" % (i + 1, k, len(ints), len(flts)))
        for j, v in zip(ints, flts):
            if not 1 <= j <= n:
                raise ParseFailure("row %d: column index %d out of 1..%d" % (i + 1, j, n))
            if A[i, j - 1] != 0.0:
                dup += 1
            A[i, j - 1] += v
        cnt += k
    bd = d.find(NS + "block-diagonal")
    blocks = []
    if bd is not None:
        for b in bd.findall(NS + "block"):
            dim, w = int(_txt(b, "dim")), int(_txt(b, "width"))
            f = [float(x.text) for x in b.findall(NS + "flt")]
            C = np.zeros((dim, dim))
            k = 0
            for i in range(dim):
                for j in range(i, min(dim, i + w + 1)):
                    if k >= len(f):
                        raise ParseFailure("block: too few values")
                    C[i, j] = C[j, i] = f[k]
                    k += 1
            if k != len(f):
                raise ParseFailure("block dim %d width %d holds %d values" % (dim, w, len(f)))
            blocks.append((dim, w, C))
    v = d.find(NS + "vector")
    rhs = np.array([float(x.text) for x in v.findall(NS + "flt")]) if v is not None else np.zeros(0)
    ar = d.find(NS + "array")
    minx = [int(x.text) for x in ar.findall(NS + "int")] if ar is not None else None
    return dict(A=A, b=rhs, blocks=blocks, minx=minx, meta=dict(m=m, n=n, nonz=nonz, counted=cnt, duplicates=dup))
